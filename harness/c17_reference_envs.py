"""C17 - built-in environments realise their Gymnasium reference MDPs.

Classic control (CartPole, MountainCar, ContinuousMountainCar, Acrobot; Pendulum is only translated, for C02):
  1. harness/translate parses the lerax sources (LERAX_SRC, default: where `lerax` is imported from) and
     regenerates coq/theories/Gen_<Env>.v; the Coq development is rebuilt; coq/props/C17.v re-checked.
  2. the translated IR is evaluated against the real lerax methods (front-end validation);
  3. Coq (vm_compute, C17Check.v) compares, per generated (state, action):
        agree   generated Q twins ~ real lerax outputs
        refok   Q twins of the hand-transcribed Gymnasium formulas ~ installed Gymnasium `step`
        holds_* lerax outputs ~ Gymnasium reference (the property, per component)
  4. coq/pending/C17_cmc_*.v (theorems that need a repaired ContinuousMountainCar) are compiled; one that does not
     compile is reported with the concrete failing (state, action) found in step 3 as replay.
MuJoCo (11 environments): numeric differential against Gymnasium v5 in a float32 subprocess (sub_c17_mujoco).
"""
from __future__ import annotations

import json
import math
import os
import re
import shutil
import subprocess
import sys
import time
from pathlib import Path

import numpy as np

from harness.common import COQ, VERIF, Violation, bl, listl, ql, run_main, setup_jax, sh

jax = setup_jax(x64=True)

import lerax  # noqa: E402

os.environ.setdefault("LERAX_SRC", str(Path(lerax.__file__).resolve().parent.parent))

from harness.translate import TranslateError, classic, validate  # noqa: E402

CC_ENVS = ["CartPole", "MountainCar", "ContinuousMountainCar", "Acrobot"]
TAG = {"CartPole": "ECartPole", "MountainCar": "EMountainCar", "ContinuousMountainCar": "ECMC", "Acrobot": "EAcrobot"}
GYM_ID = {"CartPole": "CartPole-v1", "MountainCar": "MountainCar-v0", "ContinuousMountainCar": "MountainCarContinuous-v0",
          "Acrobot": "Acrobot-v1"}
# pending theorem file -> (finding signature, Coq check function that exhibits it, description)
PENDING = {
    "C17_cmc_goal_reward": ("C17/ContinuousMountainCar/goal-reward", "holds_rew",
                            "ContinuousMountainCar.reward evaluates terminal() on the OLD state: the transition that reaches "
                            "the goal gets -0.1*a^2 instead of +100 - 0.1*a^2 (Gymnasium)"),
    "C17_cmc_left_wall": ("C17/ContinuousMountainCar/left-wall", "holds_clip",
                          "ContinuousMountainCar.clip keeps a negative velocity at the left wall; Gymnasium sets it to 0"),
    "C17_cmc_goal_position": ("C17/ContinuousMountainCar/goal-position", "holds_term",
                              "ContinuousMountainCar terminates at position >= 0.5; Gymnasium's goal_position is 0.45"),
}
MUJOCO_QUICK = ["InvertedPendulum", "Hopper", "Reacher"]
MUJOCO_ALL = ["Ant", "HalfCheetah", "Hopper", "Humanoid", "HumanoidStandup", "InvertedDoublePendulum", "InvertedPendulum",
              "Pusher", "Reacher", "Swimmer", "Walker2d"]


# ------------------------------------------------------------------------------------------------
# generators (never place a coordinate exactly on a float constant: the real-number reading of a
# comparison with a decimal constant and its float64 reading may differ exactly there)
# ------------------------------------------------------------------------------------------------
def jitter(rng, c, w):
    return c + rng.uniform(-w, w)


def gen_cases(name, rng, n):
    """-> ys (states inside the state space), acts, pres (un-limited states for clip)"""
    ys, pres, acts = [], [], []
    for i in range(n):
        k = i % 4
        if name == "CartPole":
            y = [rng.uniform(-2.6, 2.6), rng.uniform(-3, 3), rng.uniform(-0.25, 0.25), rng.uniform(-3, 3)]
            if k == 1:
                y[0] = jitter(rng, rng.choice([-2.4, 2.4]), 0.03)      # around the position threshold
            if k == 2:
                y[2] = jitter(rng, rng.choice([-1, 1]) * 12 * 2 * math.pi / 360, 0.01)
            pre = [rng.uniform(-6, 6) for _ in range(4)]
            a = int(rng.integers(0, 2))
        elif name in ("MountainCar", "ContinuousMountainCar"):
            y = [rng.uniform(-1.19, 0.59), rng.uniform(-0.069, 0.069)]
            if k == 1:   # goal region / goal step (0.45 and 0.5 both inside)
                y = [rng.uniform(0.36, 0.58), rng.uniform(0.0, 0.069)]
            if k == 2:   # heading into the left wall
                y = [rng.uniform(-1.199, -1.14), rng.uniform(-0.069, -0.01)]
            pre = [rng.uniform(-1.5, 0.9), rng.uniform(-0.1, 0.1)]
            if k == 2:
                pre = [rng.uniform(-1.5, -1.21), rng.uniform(-0.1, 0.1)]   # beyond the left wall
            if k == 3:
                pre = [rng.uniform(0.61, 0.9), rng.uniform(-0.1, 0.1)]
            a = int(rng.integers(0, 3)) if name == "MountainCar" else float(rng.uniform(-1.0, 1.0))
            if name == "ContinuousMountainCar" and i % 9 == 0:
                a = float(rng.choice([-1.0, 1.0]))
        elif name == "Acrobot":
            y = [rng.uniform(-3.1, 3.1), rng.uniform(-3.1, 3.1), rng.uniform(-12, 12), rng.uniform(-28, 28)]
            if k == 1:   # near the goal height: theta1 ~ pi, theta2 ~ 0
                y = [jitter(rng, rng.choice([-1, 1]) * 2.6, 0.5), rng.uniform(-0.6, 0.6), rng.uniform(-3, 3), rng.uniform(-3, 3)]
            pre = [rng.uniform(-10, 10), rng.uniform(-10, 10), rng.uniform(-15, 15), rng.uniform(-30, 30)]
            a = int(rng.integers(0, 3))
        ys.append(y), pres.append(pre), acts.append(a)
    return np.array(ys, dtype=float), np.array(acts), np.array(pres, dtype=float)


# ------------------------------------------------------------------------------------------------
def gym_step(name, g, y, a):
    """drive the installed Gymnasium environment from state y with action a -> (next state, reward, terminated, extra)"""
    extra = None
    if name == "CartPole":
        g.state = np.array(y, dtype=np.float64)
        g.steps_beyond_terminated = None
        _, r, term, _, _ = g.step(int(a))
        nxt = np.array(g.state, dtype=np.float64)
    elif name == "MountainCar":
        g.state = (float(y[0]), float(y[1]))
        _, r, term, _, _ = g.step(int(a))
        nxt = np.array([float(g.state[0]), float(g.state[1])])
    elif name == "ContinuousMountainCar":
        g.state = np.array(y, dtype=np.float64)
        _, r, term, _, _ = g.step(np.array([a], dtype=np.float64))
        nxt = np.array(g.state, dtype=np.float64)     # float32 values
    else:
        g.state = np.array(y, dtype=np.float64)
        extra = np.array(g._dsdt(np.append(np.array(y, dtype=np.float64), g.AVAIL_TORQUE[int(a)])), dtype=float)[:4]
        _, r, term, _, _ = g.step(int(a))
        nxt = np.array(g.state, dtype=np.float64)
    return nxt, float(r), bool(term), extra


def ref_trig(name, y, n):
    if name == "CartPole":
        return [math.sin(y[2]), math.cos(y[2])]
    if name in ("MountainCar", "ContinuousMountainCar"):
        return [math.cos(3 * y[0])]
    return [math.cos(y[1]), math.sin(y[1]), math.cos(y[0] + y[1] - math.pi / 2), math.cos(y[0] - math.pi / 2),
            math.cos(n[0]), math.cos(n[1] + n[0])]


def qlist(xs):
    return listl(ql(float(x)) for x in np.asarray(xs, dtype=float).reshape(-1))


def classic_cases(ck, envs, n_per_env):
    import gymnasium as gym

    cases, cj = [], []
    for name in CC_ENVS:
        env = envs[name] if envs is not None else None
        renv, State = validate.real_env(name)
        ev = classic.evaluator(env) if env is not None else None
        g = gym.make(GYM_ID[name]).unwrapped
        g.reset(seed=ck.seed)
        ys, acts, pres = gen_cases(name, ck.rng, n_per_env)
        gout = [gym_step(name, g, ys[i], acts[i]) for i in range(len(ys))]
        ns = np.array([o[0] for o in gout])
        # real lerax, vmapped:  dynamics(y, a), clip(pre), reward(y, a, n), terminal(n)
        real = validate.real_outputs(env, renv, State, ys, acts, ns)
        real_clip = validate.real_outputs(env, renv, State, pres, acts, ns)["clip"]
        real_term = validate.real_outputs(env, renv, State, ns, acts, ns)["terminal"]
        for i in range(len(ys)):
            y, n, p = [float(v) for v in ys[i]], [float(v) for v in ns[i]], [float(v) for v in pres[i]]
            disc = name != "ContinuousMountainCar"
            a = int(acts[i]) if disc else float(acts[i])
            o_dyn = o_rew = o_term = []
            if ev is not None:
                _, o_dyn = ev.oracle("dynamics", y + [a])
                _, o_rew = ev.oracle("reward", y + [a] + n)
                _, o_term = ev.oracle("terminal", n)
            nxt, g_r, g_t, extra = gout[i]
            g_out = extra if name == "Acrobot" else nxt
            gtol = 1e-6 if name == "ContinuousMountainCar" else 1e-9
            l_dyn, l_clip = real["dynamics"][i], real_clip[i]
            l_rew, l_term = float(real["reward"][i]), bool(real_term[i])
            ck.current_case = {"env": name, "state": y, "action": a}
            cases.append("Build_case " + " ".join([
                TAG[name], ql(1e-9), ql(gtol), ql(math.pi), qlist(y), f"{a if disc else 0}%nat", ql(0.0 if disc else a),
                qlist(n), qlist(p), qlist(o_dyn), qlist(o_rew), qlist(o_term), qlist(ref_trig(name, y, n)),
                qlist(l_dyn), qlist(l_clip), ql(l_rew), bl(l_term), qlist(g_out), ql(g_r), bl(g_t)]))
            cj.append({"env": name, "state": y, "action": a, "gymnasium_next_state": n, "unlimited_state_for_clip": p,
                       "lerax": {"dynamics": l_dyn.tolist(), "clip(unlimited_state)": l_clip.tolist(),
                                 "reward(state, action, gymnasium_next_state)": l_rew, "terminal(gymnasium_next_state)": l_term},
                       "gymnasium": {"reward": g_r, "terminated": g_t, "next_state_or_dsdt": np.asarray(g_out).tolist()},
                       "how_to_replay": f"lerax.env.classic_control.{name}(); gymnasium.make('{GYM_ID[name]}').unwrapped with .state set"})
            region = ("goal" if g_t else "wall" if (name != "CartPole" and name != "Acrobot" and n[0] <= -1.2 + 1e-9) else "interior")
            ck.case_seen((name, a if disc else round(a, 1), region, l_term), sample=cj[-1])
            ck.count(f"{name}/{region}")
        g.close()
    return cases, cj


# ------------------------------------------------------------------------------------------------
_WITNESS = {}


def witness_replay(name="ContinuousMountainCar"):
    if name not in _WITNESS:
        _WITNESS[name] = _witness_replay(name)
    return _WITNESS[name]


def _witness_replay(name):
    """the three Coq counterexamples (C17Refuted.v.disabled) replayed against the real lerax and Gymnasium code"""
    import gymnasium as gym
    import jax.numpy as jnp

    renv, State = validate.real_env(name)
    key = jax.random.key(0)
    mk = lambda y: State(y=jnp.asarray(y, dtype=float), t=jnp.array(0.0))  # noqa: E731
    g = gym.make(GYM_ID[name]).unwrapped
    g.reset(seed=0)
    out = {}
    s, a, n = [0.44, 0.06], 0.5, [0.5, 0.06]
    g.state = np.array(s)
    _, gr, gt, _, _ = g.step(np.array([a]))
    out["goal-reward"] = {"state": s, "action": a, "next_state": n,
                          "lerax_reward": float(renv.reward(mk(s), jnp.array(a), mk(n), key=key)),
                          "lerax_terminal(next_state)": bool(renv.terminal(mk(n), key=key)),
                          "gymnasium_step_from_state": {"next": np.asarray(g.state).tolist(), "reward": float(gr), "terminated": bool(gt)}}
    out["goal-reward"]["deviates"] = out["goal-reward"]["lerax_terminal(next_state)"] and abs(out["goal-reward"]["lerax_reward"] - (100 - 0.1 * a * a)) > 1e-6
    pre = [-1.3, -0.05]
    lc = np.asarray(renv.clip(jnp.asarray(pre))).tolist()
    g.state = np.array([-1.19, -0.06])
    g.step(np.array([0.0]))
    out["left-wall"] = {"unlimited_state": pre, "lerax_clip": lc, "gymnasium_limits": [-1.2, 0.0],
                        "gymnasium_step_from_[-1.19,-0.06]": np.asarray(g.state).tolist(), "deviates": abs(lc[1]) > 1e-12}
    s = [0.47, 0.01]
    g.state = np.array([0.46, 0.01])
    _, _, gt, _, _ = g.step(np.array([0.0]))
    lt = bool(renv.terminal(mk(s), key=key))
    out["goal-position"] = {"state": s, "lerax_terminal": lt, "gymnasium_goal_position": float(g.goal_position),
                            "lerax_goal_position": float(renv.goal_position),
                            "gymnasium_terminated_after_step_from_[0.46,0.01]": bool(gt), "deviates": not lt}
    g.close()
    return out


def compile_pending(ck):
    """coq/pending/C17_cmc_*.v against the fresh Gen files -> {stem: (ok, log)}; compiled theorems are recorded"""
    res = {}
    for stem in PENDING:
        f = COQ / "pending" / f"{stem}.v"
        names = re.findall(r"^\s*Theorem\s+(\w+)", f.read_text(), re.M)
        ck.obligations += len(names)
        try:
            rc, out = sh(["coqc", "-R", str(COQ / "theories"), "Lerax", "-w", "-notation-overridden", str(f)], timeout=600, cwd=str(COQ))
        except subprocess.TimeoutExpired:
            rc, out = 124, "timeout"
        res[stem] = (rc == 0, "\n".join(out.splitlines()[-8:]), names)
        if rc == 0:
            ck.theorems += names
            ck.discharged += len(names)
    return res


def compile_refuted(ck):
    d = COQ / "cases" / ck.pid
    d.mkdir(parents=True, exist_ok=True)
    shutil.copy(COQ / "theories" / "C17Refuted.v.disabled", d / "C17Refuted.v")
    try:
        rc, out = sh(["coqc", "-R", str(COQ / "theories"), "Lerax", "-w", "-notation-overridden", "C17Refuted.v"], timeout=300, cwd=str(d))
    except subprocess.TimeoutExpired:
        rc, out = 124, "timeout"
    return rc == 0, "\n".join(out.splitlines()[-6:])


# ------------------------------------------------------------------------------------------------
def mujoco_part(ck):
    # quick: three environments in depth (with the documented non-default constructor options) and, concurrently, every other
    # environment briefly (default options, 10 steps, 2 resets); thorough: all of them in depth
    if ck.tier == "quick":
        jobs = [(MUJOCO_QUICK, 30, 3, True), ([n for n in MUJOCO_ALL if n not in MUJOCO_QUICK], 10, 2, False)]
    else:
        half = len(MUJOCO_ALL) // 2
        jobs = [(MUJOCO_ALL[:half], 120, 8, True), (MUJOCO_ALL[half:], 120, 8, True)]
    env = dict(os.environ)
    env.pop("JAX_ENABLE_X64", None)
    t0 = time.time()
    procs = []
    for names, steps, resets, options in jobs:
        cmd = [sys.executable, "-m", "harness.sub_c17_mujoco", "--envs", ",".join(names), "--steps", str(steps),
               "--resets", str(resets), "--seed", str(ck.seed)] + (["--options"] if options else [])
        procs.append(subprocess.Popen(cmd, cwd=str(VERIF), env=env, stdout=subprocess.PIPE, stderr=subprocess.STDOUT, text=True))
    res = {"envs": {}}
    deadline = t0 + (1500 if ck.tier == "quick" else 5400)
    for p in procs:
        try:
            out, _ = p.communicate(timeout=max(1.0, deadline - time.time()))
        except subprocess.TimeoutExpired:
            p.kill()
            out, _ = p.communicate()
            ck.violations.append(Violation("correspondence-broken", "C17/mujoco/harness", "MuJoCo differential subprocess timed out",
                                           extra={"log": (out or "")[-2000:]}))
            continue
        m = re.search(r"^RESULT (.*)$", out or "", re.M)
        if not m:
            ck.violations.append(Violation("correspondence-broken", "C17/mujoco/harness", "MuJoCo differential subprocess produced no result",
                                           extra={"log": (out or "")[-3000:]}))
            continue
        res["envs"].update(json.loads(m.group(1)).get("envs", {}))
    ck.extra_cov["mujoco"] = {"wall_s": round(time.time() - t0, 1), "envs": {}}
    for name, r in res.get("envs", {}).items():
        summ = {"compile_s": r.get("compile_s"), "wall_s": r.get("wall_s"), "n_steps": r.get("n_steps"), "failed": []}
        if r.get("error"):
            ck.violations.append(Violation("impl-violates-property", f"C17/mujoco/exception/{name}",
                                           f"lerax {name} raised while being compared with {name}-v5: {str(r['error'])[:300]}",
                                           case={"env": name, "error": r["error"]}))
        comps = r.get("components", [])
        for comp in comps:
            ck.evaluations += int(comp.get("n", 0))
            ck.nontrivial_keys.add((name, comp["phase"], comp["name"]))
            ck.count(f"mujoco/{name}/{comp['phase']}", int(comp.get("n", 0)))
            if not comp["ok"]:
                summ["failed"].append(f"{comp['phase']}:{comp['name']}")
            elif comp.get("n_beyond_tol"):
                # contact-derived component with isolated samples beyond the tolerance (MJX vs MuJoCo-C contact activation)
                summ.setdefault("isolated_contact_mismatches", []).append(f"{comp['phase']}:{comp['name']} {comp['n_beyond_tol']}/{comp['n']}")
                ck.count("mujoco/isolated_contact_mismatches", int(comp["n_beyond_tol"]))
        failing = lambda ph: {c["name"]: c for c in comps if c["phase"] == ph and not c["ok"]}  # noqa: E731
        names_of = lambda ph: {c["name"] for c in comps if c["phase"] == ph}  # noqa: E731
        step_fail = {**failing("static"), **failing("step+cfrc"), **failing("step")}
        contact = {n: c for n, c in step_fail.items() if c.get("contact")}
        plain = {n: c for n, c in step_fail.items() if not c.get("contact")}
        fwd = []
        for n, c in failing("reset").items():
            if n in names_of("reset+forward") and n in failing("reset+forward"):
                plain.setdefault(n, c)        # still wrong with forward kinematics applied: not (only) the missing forward
                if c["max_abs_err"] > 2 * failing("reset+forward")[n]["max_abs_err"] + c["tol"]:
                    fwd.append(c)             # ... but much worse without it: both defects present
            elif n not in plain:
                fwd.append(c)
        for n, c in failing("first-step-reward").items():
            if n not in plain:
                fwd.append(c)
        if len(plain) + len(contact) + len(fwd) > 1:
            plain.pop("reward", None)         # the total is a consequence of the component reported next to it
        wc = lambda c: {"env": name, "component": c["name"], "phase": c["phase"], **(c.get("worst") or {})}  # noqa: E731
        base = name.split("(")[0]
        if base != name and base in res.get("envs", {}):
            # a constructor-option variant failing on a component on which the default-constructed environment fails as well is
            # the same defect at the same code site: it is reported once, under the default environment's signature
            base_fail = {c["name"] for c in res["envs"][base].get("components", []) if not c["ok"]}
            same = [n for n in list(plain) if n in base_fail]
            for n in same:
                plain.pop(n)
            if same:
                summ.setdefault("same_failure_as_default_constructor", []).extend(same)
        for n, c in plain.items():
            ck.violations.append(Violation(
                "impl-violates-property", f"C17/mujoco-step/{name}/{n}",
                f"lerax {name}: {n} differs from Gymnasium {name}-v5 on the same (qpos, qvel, action) [{c['phase']}]: "
                f"max abs err {c['max_abs_err']:.3g}, max rel err {c['max_rel_err']:.3g}, tolerance {c['tol']:g}", case=wc(c)))
        if contact:
            c = max(contact.values(), key=lambda c: c.get("max_abs_err", 0))
            ck.violations.append(Violation(
                "impl-violates-property", f"C17/mujoco-cfrc-ext/{name}",
                f"lerax {name}: contact-force-derived components ({', '.join(contact)}) differ from Gymnasium {name}-v5 beyond 1e-2 "
                f"(max abs err {c['max_abs_err']:.3g}): cfrc_ext stays 0 in the MJX data (no mjx.rne_postconstraint after the step)",
                case=wc(c)))
        if fwd:
            c = max(fwd, key=lambda c: c.get("max_abs_err", 0))
            ck.violations.append(Violation(
                "impl-violates-property", f"C17/mujoco-initial-forward/{name}",
                f"lerax {name}.initial() builds its state without mjx.forward: reset observation / first-step reward differ from "
                f"{name}-v5 at identical qpos/qvel ({', '.join(x['phase'] + ':' + x['name'] for x in fwd)}; max abs err "
                f"{c['max_abs_err']:.3g}); " + ("they agree once mjx.forward is applied" if all(x["name"] not in plain for x in fwd)
                                               else "with mjx.forward applied only the difference reported under C17/mujoco-step remains"),
                case=wc(c)))
        summ["notes"] = [str(x)[:400] for x in r.get("notes", [])]
        ck.extra_cov["mujoco"]["envs"][name] = summ
    ck.traces_validated += sum(int(c.get("n", 0)) for r in res.get("envs", {}).values() for c in r.get("components", []) if c["ok"])


# ------------------------------------------------------------------------------------------------
def body(ck):
    ck.rule = ("classic control: per environment, states drawn over the whole state space plus the goal region, both walls and "
               "termination thresholds (never exactly on a float constant), every discrete action / uniformly drawn continuous "
               "action; a case is distinct by (environment, action, region, lerax terminal flag). Every case is evaluated by the "
               "real lerax methods, the installed Gymnasium step and by Coq. MuJoCo: Gymnasium v5 takes the step, lerax's own "
               "reward/terminal/observation/transition_info are evaluated on the same (qpos, qvel) pair; resets at identical qpos/qvel")
    ck.assumptions = [
        "harness/translate (Python ast -> IR -> Coq) is trusted only as far as validated every run: IR evaluated against the real "
        "lerax methods on random and boundary states, generated Q twins compared with lerax outputs by Coq",
        "ClassicControl.v is a hand transcription of gymnasium 1.3.0 classic_control sources, validated every run against the "
        "installed Gymnasium step through its Q twins (C17Check.v)",
        "decimal literals of the sources are read as exact decimals in the real-number theorems (9.8 = 98/10)",
    ]
    ck.not_proved = [
        "MountainCar / ContinuousMountainCar / Acrobot trajectories: Gymnasium uses a discrete semi-implicit update / rk4, lerax a "
        "diffrax solver over the same vector field; only the field, the limit map, rewards, termination and the exact relation "
        "'Gymnasium step = lerax clip after a unit semi-implicit Euler step' are proved, not closeness of trajectories",
        "float32/float64 rounding; diffrax's Euler solver implementing y + dt*f (C17_cartpole_euler is about the formula)",
        "initial-state DISTRIBUTION (uniform): only the ranges are proved equal, sampling is explored (min/max of 4000 draws)",
        "out-of-range continuous actions: Gymnasium penalises the raw action, lerax the clipped one (outside the action space)",
        "all MuJoCo statements: numeric differential against Gymnasium v5 with tolerances (MJX vs MuJoCo-C physics not modelled); contact-force-derived "
        "components fail only on systematic disagreement (> 15% of the samples): the two engines may disagree on contact activation at touch-down instants",
        "Q reference twins in C17Check.v: the CartPole and MountainCar field twins are proved restrictions of the real reference "
        "(C17_*_ref_twin); the other twins (limits, steps, termination, Acrobot dsdt) mirror ClassicControl.v by construction only",
    ]
    # ---- 1. translate, regenerate, build
    imported_from = Path(lerax.__file__).resolve().parent.parent
    if imported_from != classic.src_root().resolve():
        ck.notes.append(f"WARNING: LERAX_SRC={classic.src_root()} differs from the imported lerax ({imported_from})")
    envs, twins_ok = None, False
    gen_dir = COQ / "theories"
    backup = {p: p.read_text() for p in gen_dir.glob("Gen_*.v")}
    try:
        envs = classic.translate_all()
        classic.write_coq(envs, gen_dir)
        ck.notes.append("translated from " + str(classic.src_root()) + ": " + ", ".join(f"{n}@{e.sha}" for n, e in envs.items()))
    except TranslateError as e:
        ck.log(f"translator failed closed: {e}")
        ck.violations.append(Violation("proof-broken", "C17/translator", f"lerax classic-control source no longer translates: {e}"))
    ok = ck.build_coq()
    if ok and envs is not None:
        twins_ok = True
    if not ok:
        # the freshly generated definitions break a proof: keep the finding, but do not leave the shared Coq
        # development broken for the other checks: put the previous generated files back (then the committed ones)
        for attempt in ("previous", "committed"):
            for p, txt in backup.items():
                if attempt == "committed":
                    rc, txt2 = sh(["git", "-C", str(VERIF), "show", f"HEAD:coq/theories/{p.name}"], timeout=60)
                    txt = txt2 if rc == 0 else txt
                p.write_text(txt)
            rc, out = sh(["bash", str(COQ / "build.sh")], timeout=3000)
            if rc == 0:
                ck.notes.append(f"generated files restored ({attempt}) after the build failure; Coq development is green again")
                ok = True
                break
        ck.discharged = 0
        names = re.findall(r"^\s*Theorem\s+(\w+)", (COQ / "props" / "C17.v").read_text(), re.M)
        ck.theorems, ck.obligations = names, len(names)
    else:
        ck.compile_props()
        if envs is None:
            ck.discharged = 0     # the theorems on disk are about stale generated definitions
            ck.notes.append("translator failed: theorems compiled against STALE generated definitions are not counted")
    ck.log("coq built")
    pend = compile_pending(ck) if twins_ok else {}
    ck.log("pending theorems: " + ", ".join(f"{k}={'ok' if v[0] else 'FAILS'}" for k, v in pend.items()))

    # ---- 2. front end vs real lerax
    n_val = 150 if ck.tier == "quick" else 1500
    if envs is not None:
        for name, env in envs.items():
            renv, State = validate.real_env(name)
            span = {"CartPole": 5.0, "MountainCar": 1.5, "ContinuousMountainCar": 1.5, "Acrobot": 30.0, "Pendulum": 10.0}[name]
            bad = validate.validate_constants(env, renv)
            ys, ns = validate.gen_states(env, ck.rng, n_val, span), validate.gen_states(env, ck.rng, n_val, span)
            acts = validate.gen_actions(env, ck.rng, n_val)
            b2, _ = validate.validate_functions(env, renv, State, ys, acts, ns)
            bad += b2 + validate.validate_initial(env, renv)
            ck.count(f"frontend/{name}", n_val)
            ck.evaluations += n_val
            if bad:
                ck.violations.append(Violation("correspondence-broken", f"C17/translator/{name}",
                                               f"translated IR differs from the real lerax {name} ({len(bad)} mismatches): {bad[0]['what']}",
                                               case=bad[0]))
        ck.log("front end validated against lerax")

    # ---- 3. Coq-evaluated cases
    res, cj = None, []
    if ok:
        cases, cj = classic_cases(ck, envs if twins_ok else None, 100 if ck.tier == "quick" else 2500)
        funcs = (("agree",) if twins_ok else ()) + ("refok", "holds_dyn", "holds_clip", "holds_rew", "holds_term")
        if not twins_ok:
            ck.notes.append("generated Q twins unavailable or stale: `agree` not evaluated, numeric search only")
        res = ck.run_coq_cases("C17Check", cases, funcs=funcs, shard=60 if ck.tier == "quick" else 220, preamble="Import C17Check.")
        ck.log("coq cases evaluated")
    size = lambda i: len(json.dumps(cj[i], default=str))  # noqa: E731
    handled = set()
    if res is not None:
        bad_any = set().union(*[set(v) for v in res.values()])
        ck.traces_validated += len(cj) - len(bad_any)
        comp_name = {"holds_dyn": "vector-field", "holds_clip": "limits", "holds_rew": "reward", "holds_term": "termination"}
        cmc_sig = {v[1]: v[0] for v in PENDING.values()}
        for fn in ("holds_dyn", "holds_clip", "holds_rew", "holds_term"):
            by_env = {}
            for i in res[fn]:
                by_env.setdefault(cj[i]["env"], []).append(i)
            for name, idx in by_env.items():
                i = min(idx, key=size)
                sig = cmc_sig[fn] if (name == "ContinuousMountainCar" and fn in cmc_sig) else f"C17/{name}/{comp_name[fn]}"
                what = next((v[2] for v in PENDING.values() if v[0] == sig), f"lerax {name} {comp_name[fn]} differs from the Gymnasium reference")
                case = dict(cj[i])
                if name == "ContinuousMountainCar":
                    try:
                        case["coq_witness_replayed_on_real_code"] = witness_replay()[sig.rsplit("/", 1)[1]]
                    except Exception as e:  # noqa: BLE001
                        case["coq_witness_replayed_on_real_code"] = f"replay failed: {e}"
                ck.violations.append(Violation("impl-violates-property", sig, what + f" ({len(idx)} of {len(cj)} cases)", case=case))
                handled.add(sig)
        for fn, kind, label in (("agree", "translator", "generated Q twin differs from the real lerax output"),
                                ("refok", "gym-transcription", "transcribed Gymnasium formula differs from the installed Gymnasium step")):
            by_env = {}
            for i in res.get(fn, []):
                by_env.setdefault(cj[i]["env"], []).append(i)
            for name, idx in by_env.items():
                ck.violations.append(Violation("correspondence-broken", f"C17/{name}/{kind}", f"{label} ({len(idx)} cases)",
                                               case=cj[min(idx, key=size)]))

    # ---- 4. pending theorems that do not compile: a proof broke; the concrete input comes from step 3
    failed = [k for k, v in pend.items() if not v[0]]
    if failed:
        rok, rlog = compile_refuted(ck)
        ck.notes.append("C17Refuted.v.disabled (counterexamples about the generated definitions) " +
                        ("compiles: kernel-checked witnesses" if rok else "does not compile as a whole: " + rlog[-300:]))
    for stem in failed:
        sig, fn, what = PENDING[stem]
        if sig in handled:
            continue   # already reported with a concrete failing state/action
        ck.violations.append(Violation("proof-broken", sig + "/proof", f"coq/pending/{stem}.v does not compile and no failing input was found: {what}",
                                       extra={"log": pend[stem][1]}))

    # ---- 5. MuJoCo differential (float32 subprocess)
    if os.environ.get("C17_SKIP_MUJOCO"):
        ck.notes.append("MuJoCo differential skipped (C17_SKIP_MUJOCO set)")
    elif (VERIF / "harness" / "sub_c17_mujoco.py").exists():
        mujoco_part(ck)
        ck.log("mujoco differential done")
    else:
        ck.notes.append("MuJoCo differential module missing")


if __name__ == "__main__":
    run_main("C17", body)
