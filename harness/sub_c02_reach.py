"""C02 goal-directed reachability search (float32 subprocess).

For every built-in environment whose observation space has a FINITE bound on some component, and for each such bound, a
model-predictive shooting controller drives the real environment (its own functional components: initial / transition / observation /
terminal / truncate) TOWARDS that bound while avoiding episode ends: at each re-planning step M candidate action sequences (piecewise
constant, sampled from the action space, plus the bound corners) are rolled out H steps ahead under vmap, the best surviving one is
chosen, its first block is executed on the real state, and the observation of every state visited is tested with the environment's own
observation_space.contains.  This is a SEARCH for a reachable state outside the declared space (property C02, reachability clause),
not a proof of its absence.

Prints one line `RESULT <json>`: per environment, the finite bounds targeted, steps executed, closest approach, violations."""
from __future__ import annotations

import argparse
import json
import os
import sys
import time

os.environ.setdefault("JAX_PLATFORMS", "cpu")
import jax  # noqa: E402
import jax.numpy as jnp  # noqa: E402
import jax.random as jr  # noqa: E402
import numpy as np  # noqa: E402


def log(*a):
    print("[c02-reach]", *a, file=sys.stderr, flush=True)


def make_envs(names):
    from lerax.env import classic_control as cc
    from lerax.env import mujoco as mj
    table = {
        "CartPole": cc.CartPole, "MountainCar": cc.MountainCar, "ContinuousMountainCar": cc.ContinuousMountainCar,
        "Acrobot": cc.Acrobot, "Pendulum": cc.Pendulum,
        "InvertedPendulum": mj.InvertedPendulum, "InvertedDoublePendulum": mj.InvertedDoublePendulum, "Reacher": mj.Reacher,
        "Swimmer": mj.Swimmer, "Hopper": mj.Hopper, "HalfCheetah": mj.HalfCheetah, "Walker2d": mj.Walker2d, "Pusher": mj.Pusher,
        "Ant": mj.Ant, "Humanoid": mj.Humanoid, "HumanoidStandup": mj.HumanoidStandup,
    }
    return [(n, table[n]) for n in names if n in table]


def action_candidates(space, key, M, B):
    """(M, B, *action shape) piecewise-constant candidates: uniform samples from the action space plus its corners"""
    from lerax.space import Box, Discrete
    if isinstance(space, Discrete):
        n = int(space.n)
        c = jr.randint(key, (M, B), 0, n)
        for a in range(min(n, M)):
            c = c.at[a].set(a)                      # constant sequences
        return c
    if isinstance(space, Box):
        lo = jnp.where(jnp.isfinite(space.low), space.low, -1.0)
        hi = jnp.where(jnp.isfinite(space.high), space.high, 1.0)
        u = jr.uniform(key, (M, B) + lo.shape)
        # a third of the candidates use only the corners of the box (bang-bang)
        corners = jnp.round(u)
        u = jnp.where((jnp.arange(M) % 3 == 0).reshape((M,) + (1,) * (u.ndim - 1)), corners, u)
        c = lo + u * (hi - lo)
        c = c.at[0].set(jnp.broadcast_to(lo, c.shape[1:])).at[1].set(jnp.broadcast_to(hi, c.shape[1:])).at[2].set(jnp.broadcast_to((lo + hi) / 2, c.shape[1:]))
        return c
    raise TypeError("unsupported action space")


def search_env(name, ctor, seed, replans, M, H, block, max_targets):
    from lerax.space import Box
    out = {"targets": [], "steps": 0, "violations": [], "error": None, "finite_bounds": 0}
    try:
        env = ctor()
        osp = env.observation_space
        if not isinstance(osp, Box):
            out["skipped"] = "observation space is not a Box"
            return out
        low, high = np.asarray(osp.low, dtype=np.float64).reshape(-1), np.asarray(osp.high, dtype=np.float64).reshape(-1)
        targets = [(i, +1.0, float(high[i])) for i in range(len(high)) if np.isfinite(high[i])] + \
                  [(i, -1.0, float(low[i])) for i in range(len(low)) if np.isfinite(low[i])]
        out["finite_bounds"] = len(targets)
        if not targets:
            out["skipped"] = "no finite observation bound"
            return out
        B = H // block

        def flat_obs(s, k):
            return jnp.ravel(env.observation(s, key=k))

        def rollout(state, blocks, idx, sign, key):
            """score of one candidate: signed distance travelled towards the bound at the last step the episode is still alive"""
            acts = jnp.repeat(blocks, block, axis=0)

            def body(carry, xs):
                s, alive, best = carry
                a, k = xs
                k1, k2, k3 = jr.split(k, 3)
                s2 = env.transition(s, a, key=k1)
                ended = env.terminal(s2, key=k2) | env.truncate(s2)
                j = sign * flat_obs(s2, k3)[idx]
                alive2 = alive & ~ended
                best = jnp.where(alive2, j, best)
                s2 = jax.tree.map(lambda x, y: jnp.where(alive2, x, y), s2, s)
                return (s2, alive2, best), None
            j0 = sign * flat_obs(state, key)[idx]
            (_, alive, best), _ = jax.lax.scan(body, (state, jnp.asarray(True), j0), (acts, jr.split(key, acts.shape[0])))
            return best + jnp.where(alive, 0.0, -1e-3)

        plan = jax.jit(lambda state, cands, idx, sign, key: jax.vmap(lambda c: rollout(state, c, idx, sign, key))(cands))
        step = jax.jit(lambda s, a, k: (lambda s2: (s2, flat_obs(s2, k), env.terminal(s2, key=k) | env.truncate(s2)))(env.transition(s, a, key=k)))
        contains = jax.jit(lambda o: osp.contains(o.reshape(np.asarray(osp.low).shape)))
        rng = np.random.default_rng(seed)
        for (idx, sign, bound) in targets[:max_targets]:
            key = jr.key(int(rng.integers(0, 2 ** 31)))
            state = env.initial(key=key)
            closest, nsteps, ended = None, 0, False
            for r in range(replans):
                key, k1, k2 = jr.split(key, 3)
                cands = action_candidates(env.action_space, k1, M, B)
                scores = np.asarray(plan(state, cands, idx, sign, k2))
                best = cands[int(np.argmax(scores))]
                for a in np.asarray(jnp.repeat(best[:1], block, axis=0)):
                    key, k = jr.split(key)
                    state, obs, end = step(state, jnp.asarray(a, dtype=best.dtype), k)
                    obs = np.asarray(obs); nsteps += 1
                    margin = float(bound - obs[idx]) if sign > 0 else float(obs[idx] - bound)
                    closest = margin if closest is None else min(closest, margin)
                    if not bool(contains(jnp.asarray(obs))) and np.all(np.isfinite(obs)):
                        out["violations"].append({"env": name, "component": int(idx), "direction": "high" if sign > 0 else "low", "declared_bound": bound,
                                                  "observation": obs.tolist(), "step": nsteps, "episode_ended_at_this_state": bool(end)})
                        break
                    if bool(end):
                        ended = True
                        break
                if ended or out["violations"]:
                    break
            out["targets"].append({"component": int(idx), "direction": "high" if sign > 0 else "low", "bound": bound, "steps": nsteps,
                                   "closest_margin": closest, "episode_ended": ended})
            out["steps"] += nsteps
            if out["violations"]:
                break
    except Exception as e:  # noqa: BLE001
        import traceback
        out["error"] = f"{type(e).__name__}: {e}"
        out["traceback"] = traceback.format_exc()[-1500:]
    return out


def main():
    ap = argparse.ArgumentParser()
    ap.add_argument("--envs", default="CartPole,MountainCar,ContinuousMountainCar,Acrobot,Pendulum,InvertedPendulum,InvertedDoublePendulum,Reacher,Swimmer,Hopper,HalfCheetah,Walker2d,Pusher,Ant,Humanoid,HumanoidStandup")
    ap.add_argument("--seed", type=int, default=0)
    ap.add_argument("--replans", type=int, default=40)
    ap.add_argument("--candidates", type=int, default=96)
    ap.add_argument("--horizon", type=int, default=24)
    ap.add_argument("--block", type=int, default=4)
    ap.add_argument("--max-targets", type=int, default=8)
    a = ap.parse_args()
    res, t0 = {}, time.time()
    for name, ctor in make_envs(a.envs.split(",")):
        t = time.time()
        res[name] = search_env(name, ctor, a.seed, a.replans, a.candidates, a.horizon, a.block, a.max_targets)
        res[name]["wall_s"] = round(time.time() - t, 2)
        log(name, "bounds", res[name]["finite_bounds"], "steps", res[name]["steps"], "violations", len(res[name]["violations"]),
            "error", res[name]["error"], f"{res[name]['wall_s']}s", res[name].get("skipped", ""),
            "closest", [round(t_["closest_margin"], 4) for t_ in res[name]["targets"] if t_["closest_margin"] is not None][:6])
        jax.clear_caches()
    print("RESULT " + json.dumps({"envs": res, "wall_s": round(time.time() - t0, 2), "params": vars(a)}))


if __name__ == "__main__":
    main()
