"""C15 — action distributions are coherent probability laws.  Tie: the seven real lerax
distribution classes (float64 mode) against Lerax.C15Check; exp / ln / sigmoid values are mpmath
oracles.  Numerical exploration (not proof): quadrature of exp(log_prob) ~ 1, empirical CDF of samples
against the stated density (DKW bound), Monte-Carlo -E[log p] against entropy()."""
from __future__ import annotations

import itertools
import math
from fractions import Fraction

import numpy as np

from harness.common import Violation, bl, listl, natl, ql, run_main, setup_jax, zl

jax = setup_jax(x64=True)
import equinox as eqx  # noqa: E402
import jax.numpy as jnp  # noqa: E402
import jax.random as jr  # noqa: E402
import mpmath  # noqa: E402

from lerax.distribution import (  # noqa: E402
    Bernoulli, Categorical, MultiCategorical, MultivariateNormalDiag, Normal,
    SquashedMultivariateNormalDiag, SquashedNormal,
)

mpmath.mp.dps = 40
SCALE = 10 ** 34


def mpq(v) -> Fraction:
    return Fraction(int(mpmath.floor(v * SCALE)), SCALE)


def exp_o(x):
    return mpq(mpmath.exp(mpmath.mpf(float(x))))


def ln_o(x):
    return mpq(mpmath.log(mpmath.mpf(float(x))))


def sig_o(x):
    x = mpmath.mpf(float(x))
    s = 1 / (1 + mpmath.exp(-x))
    return mpq(s), mpq(mpmath.log(s)), mpq(-mpmath.log(1 + mpmath.exp(x)))


HL2PI = mpq(mpmath.log(mpmath.sqrt(2 * mpmath.pi)))


def qo(x):
    f = float(x)
    return "None" if f == float("-inf") else f"(Some {ql(f)})"


def qll(xs):
    return listl(ql(x) for x in np.asarray(xs).reshape(-1))


def fl(xs):
    return listl(ql(x) for x in xs)


def dkw(n, alpha=1e-10):
    return math.sqrt(math.log(2 / alpha) / (2 * n))


def ncdf(z):
    return 0.5 * (1 + math.erf(z / math.sqrt(2)))


# ----------------------------------------------------------------------------
def body(ck):
    quick = ck.tier == "quick"
    ck.rule = ("Categorical n<=6 (logits incl. -inf entries, and probs), Bernoulli components, MultiCategorical over several dims (flat and sequence), "
               "Normal / MultivariateNormalDiag (dims<=3), SquashedNormal / SquashedMultivariateNormalDiag with random bounds low<high, |loc| <= 4, scale in [0.2, 2]; "
               "all outcomes enumerated for discrete laws; a case is non-trivial when the law is not uniform/standard (distinct logits, scale != 1, bounds != (-1,1)); distinct by parameters")
    ck.not_proved = [
        "integral of the Gaussian density = 1 (no Gaussian integral in the installed libraries): explored by quadrature of exp(log_prob), tolerance 1e-6",
        "integral of the squashed density over (low, high) = 1: follows from the change-of-variables identity (proved pointwise) and the Gaussian integral; explored by quadrature, tolerance 1e-4",
        "samples follow the stated density (a PRNG / measure fact): explored by the empirical CDF against the integrated density, DKW bound with false-alarm probability 1e-10 per test",
        "Normal entropy = -E[log p] (needs Gaussian moments): explored by Monte Carlo with a 7-sigma threshold; discrete entropies ARE proved",
        "distreqx internals are modelled from their source formulas and validated only by this tie",
    ]
    ck.assumptions = ["exp/ln/sigmoid values supplied by mpmath (40 digits) as oracle inputs; tolerance 1e-9 (1e-6 after the sigmoid inverse) in float64 mode",
                      "float32 sigmoid saturation for |x| > 17 is outside the generated range (|loc| <= 4, scale <= 2)"]
    ck.build_coq()
    ck.compile_props()
    rng = ck.rng
    cases, cj = [], []
    nkeys = 4 if quick else 10

    def add(lit, j, nontriv):
        cases.append(lit)
        cj.append(j)
        ck.case_seen(nontriv, sample=j)
        ck.count(j["component"])

    def viol(sig, what, case):
        ck.violations.append(Violation("impl-violates-property", sig, what, case=case))

    # ------------------------------------------------------------------ Categorical
    @eqx.filter_jit
    def run_cat(d, keys):
        n = d.logits.shape[-1]
        idx = jnp.arange(n)
        lps = jax.vmap(d.log_prob)(idx)
        prs = jax.vmap(d.prob)(idx)
        s, lp = jax.vmap(d.sample_and_log_prob)(keys)
        s1 = jax.vmap(d.sample)(keys)
        noise = jax.vmap(lambda k: jr.gumbel(k, d.logits.shape, d.logits.dtype))(keys)
        return d.probs, lps, prs, d.entropy(), d.mode(), s, lp, s1, noise

    def lit_cat(logits_o, ews, lnZ, probs, lps, entropy, mode, draws):
        el = [exp_o(x) if np.isfinite(x) else Fraction(0) for x in lps]
        dl = listl(f"({qll(g)}, {zl(s)}, {ql(lp)})" for g, s, lp in draws)
        return (f"DCat {listl(logits_o)} {fl(ews)} {ql(lnZ)} {qll(probs)} {listl(qo(x) for x in lps)} {fl(el)} "
                f"{ql(entropy)} {zl(mode)} {dl}")

    ncat = 6 if quick else 20
    for n in range(1, 7):
        for t in range(ncat):
            kind = t % 4
            if kind == 0:
                logits = rng.normal(size=n) * 3
            elif kind == 1:
                logits = rng.uniform(-15, 15, size=n)
            elif kind == 2:
                logits = rng.normal(size=n) * 2
                if n > 1:
                    logits[rng.random(n) < 0.4] = -np.inf
                    if not np.any(np.isfinite(logits)):
                        logits[0] = 0.5
            else:
                logits = None
                p = rng.random(n) + 0.01
                p = p / p.sum()
            keys = jr.split(jr.key(int(rng.integers(2 ** 31))), nkeys)
            if logits is not None:
                ck.current_case = {"component": "Categorical", "logits": logits.tolist()}
                d = Categorical(logits=jnp.asarray(logits))
                lo = [qo(x) for x in logits]
                ews = [exp_o(x) if np.isfinite(x) else Fraction(0) for x in logits]
                lnZ = mpq(mpmath.log(mpmath.fsum(mpmath.exp(mpmath.mpf(float(x))) for x in logits if np.isfinite(x))))
                param = {"logits": logits.tolist()}
            else:
                ck.current_case = {"component": "Categorical", "probs": p.tolist()}
                d = Categorical(probs=jnp.asarray(p))
                lo = [f"(Some {ql(ln_o(x))})" for x in p]
                ews = [Fraction(float(x)) for x in p]
                lnZ = mpq(mpmath.log(mpmath.fsum(mpmath.mpf(float(x)) for x in p)))
                param = {"probs": p.tolist()}
            probs, lps, prs, ent, mode, s, lp, s1, noise = map(np.asarray, run_cat(d, keys))
            j = dict(component="Categorical", **param, impl_probs=probs.tolist(), impl_log_probs=lps.tolist(), impl_entropy=float(ent),
                     impl_mode=int(mode), impl_sample_and_log_prob=[s.tolist(), lp.tolist()])
            if not np.allclose(prs, probs, rtol=1e-12, atol=1e-15):
                viol("C15/Categorical/prob-vs-probs", "prob(i) differs from probs[i]", j)
            if not np.array_equal(s, s1):
                viol("C15/Categorical/sample-vs-sample_and_log_prob", "sample(key) and sample_and_log_prob(key) return different samples for the same key", j)
            draws = [(noise[k], int(s[k]), float(lp[k])) for k in range(nkeys)]
            nt = ("cat", n, t) if n > 1 else None
            add(lit_cat(lo, ews, lnZ, probs, lps, float(ent), int(mode), draws), j, nt)

    # large class counts: samples and mode must still be indices of the support
    bad_large = []
    for n, peak in ((100, 77), (129, 128), (200, 150), (300, 290)):
        logits = np.zeros(n)
        logits[peak] = 8.0
        d = Categorical(logits=jnp.asarray(logits))
        mode = int(d.mode())
        ss = [int(d.sample(jr.key(i))) for i in range(3)]
        # sample_and_log_prob must return an index of the support too, with ITS OWN log-probability
        sl = [d.sample_and_log_prob(jr.key(i)) for i in range(3)]
        ss += [int(x) for x, _ in sl]
        lp_ok = all((0 <= int(x) < n) and abs(float(lp) - float(d.log_prob(jnp.asarray(int(x))))) < 1e-6 for x, lp in sl)
        ck.count("Categorical/large-n")
        ck.case_seen(("cat-large", n))
        if not (0 <= mode < n and mode == peak) or any(not (0 <= x < n) for x in ss) or not lp_ok:
            bad_large.append({"n": n, "logits": f"zeros({n}) with logits[{peak}]=8", "impl_mode": mode, "impl_samples": ss})
    if bad_large:
        b = bad_large[0]
        viol("C15/Categorical/int8-overflow",
             f"Categorical with {b['n']} classes: mode()={b['impl_mode']}, samples {b['impl_samples']} are not indices of the support "
             f"(distreqx casts samples and modes to int8; wraps for more than 128 classes); failing class counts: {[x['n'] for x in bad_large]}",
             {"component": "Categorical", "reproducer": "Categorical(logits=jnp.zeros(200).at[150].set(8.0)).mode()  # -> -106", "failing": bad_large})

    # ------------------------------------------------------------------ Bernoulli (component = two-class law [0; l])
    @eqx.filter_jit
    def run_bern(d, keys):
        one = jnp.ones(d.logits.shape, dtype=jnp.int8)
        s, lp = jax.vmap(d.sample_and_log_prob)(keys)
        return (d.probs, d.log_prob(0 * one), d.log_prob(one), d.prob(0 * one), d.prob(one), d.entropy(), d.mode(), s, lp,
                jax.vmap(d.log_prob)(s))

    for n in range(1, 5):
        for t in range(3 if quick else 10):
            logits = rng.normal(size=n) * 3 if t % 2 == 0 else rng.uniform(-12, 12, size=n)
            ck.current_case = {"component": "Bernoulli", "logits": logits.tolist()}
            d = Bernoulli(logits=jnp.asarray(logits)) if t % 3 != 2 else Bernoulli(probs=jnp.asarray(1 / (1 + np.exp(-logits))))
            keys = jr.split(jr.key(int(rng.integers(2 ** 31))), nkeys)
            p1, lp0, lp1, pr0, pr1, ent, mode, s, lp, lps = map(np.asarray, run_bern(d, keys))
            jb = {"component": "Bernoulli", "logits": logits.tolist(), "impl_probs": p1.tolist(), "impl_samples": s.tolist(), "impl_sample_log_probs": lp.tolist()}
            if not (np.all((s == 0) | (s == 1)) and np.allclose(lp, lps, rtol=1e-9, atol=1e-12)):
                viol("C15/Bernoulli/sample", "Bernoulli sample outside {0,1} or sample_and_log_prob inconsistent with log_prob", jb)
            for i in range(n):
                l = float(np.log(p1[i]) - np.log1p(-p1[i])) if t % 3 == 2 else float(logits[i])
                e = exp_o(l)
                lnZ = mpq(mpmath.log(1 + mpmath.exp(mpmath.mpf(l))))
                j = {"component": "Bernoulli", "logit": l, "impl_probs": [float(pr0[i]), float(pr1[i])], "impl_log_probs": [float(lp0[i]), float(lp1[i])],
                     "impl_entropy": float(ent[i]), "impl_mode": int(mode[i])}
                tolp = 1e-9 if t % 3 == 2 else 0
                if abs(l) < tolp:
                    continue
                add(lit_cat(["(Some (Qmake 0 1))", f"(Some {ql(l)})"], [Fraction(1), e], lnZ, [pr0[i], pr1[i]], [lp0[i], lp1[i]], float(ent[i]), int(mode[i]), []),
                    j, ("bern", round(l, 6)))

    # ------------------------------------------------------------------ MultiCategorical
    dims_list = [(2, 3), (3, 2, 2), (1, 4), (2, 2)] if quick else [(2, 3), (3, 2, 2), (1, 4), (2, 2), (4, 3), (2, 2, 2, 2), (5,)]
    for dims in dims_list:
        tot = sum(dims)
        idx = np.cumsum(dims)[:-1].tolist()
        for t in range(3 if quick else 8):
            logits = rng.normal(size=tot) * 2.5
            # classes of probability exactly zero (a -inf logit / a zero probability) in components with >= 2 classes
            zero_at = [int(o + rng.integers(0, k)) for o, k in zip([0] + idx, dims) if k >= 2 and rng.random() < 0.7] if t % 3 != 0 else []
            for z in zero_at:
                logits[z] = -np.inf
            if t % 3 == 2:
                pp = rng.random(tot) + 0.05
                for z in zero_at:
                    pp[z] = 0.0
                d = MultiCategorical(probs=jnp.asarray(pp), action_dims=dims)
                d_seq = MultiCategorical(probs=[jnp.asarray(x) for x in np.split(pp, idx)])
                param = {"probs": pp.tolist()}
            else:
                d = MultiCategorical(logits=jnp.asarray(logits), action_dims=dims)
                d_seq = MultiCategorical(logits=[jnp.asarray(x) for x in np.split(logits, idx)])
                param = {"logits": logits.tolist()}
            ck.current_case = dict(component="MultiCategorical", dims=dims, **param)
            outs = list(itertools.product(*[range(k) for k in dims]))
            oa = jnp.asarray(outs)
            jl = np.asarray(jax.vmap(d.log_prob)(oa))
            jp = np.asarray(jax.vmap(d.prob)(oa))
            jl_seq = np.asarray(jax.vmap(d_seq.log_prob)(oa))
            comps = [Categorical(logits=c.logits) for c in d.distribution]
            comp_lps = [np.asarray(jax.vmap(c.log_prob)(jnp.arange(k))) for c, k in zip(comps, dims)]
            comp_ent = [float(c.entropy()) for c in comps]
            ent = float(d.entropy())
            mode = np.asarray(d.mode())
            keys = jr.split(jr.key(int(rng.integers(2 ** 31))), nkeys)
            sl = [d.sample_and_log_prob(k) for k in keys]
            ck.count("MultiCategorical/zero-probability-classes", len(zero_at))
            if not np.isfinite(ent):
                viol("C15/MultiCategorical/entropy-not-finite", f"entropy() = {ent} (sum of the component entropies = {sum(comp_ent)})",
                     dict(component="MultiCategorical", dims=list(dims), **param, impl_entropy=str(ent), impl_component_entropies=comp_ent))
                continue
            j = dict(component="MultiCategorical", dims=list(dims), **param, impl_joint_log_probs=jl.tolist(), impl_entropy=ent, impl_mode=mode.tolist(),
                     impl_component_log_probs=[c.tolist() for c in comp_lps], impl_component_entropies=comp_ent,
                     impl_sample_and_log_prob=[[np.asarray(s).tolist(), float(l)] for s, l in sl])
            if not (np.array_equal(jl, jl_seq) and float(d_seq.entropy()) == ent and d_seq.action_dims == tuple(dims)):
                viol("C15/MultiCategorical/flat-vs-sequence", "flat and sequence parameterisations give different laws", j)
            joint = listl(f"({listl(zl(a) for a in o)}, {qo(l)}, {ql(p)})" for o, l, p in zip(outs, jl, jp))
            ej = [exp_o(x) if np.isfinite(x) else Fraction(0) for x in jl]
            dl = listl(f"({listl(zl(a) for a in np.asarray(s).tolist())}, {ql(float(l))})" for s, l in sl)
            lit = (f"DMulti {listl(natl(k) for k in dims)} {listl(listl(qo(x) for x in c) for c in comp_lps)} {fl(comp_ent)} {joint} {fl(ej)} "
                   f"{ql(ent)} {listl(zl(a) for a in mode.tolist())} {dl}")
            add(lit, j, ("multi", dims, t))
    # flat parameterisation under jit (how every policy / algorithm uses it)
    try:
        lp_jit = float(eqx.filter_jit(lambda lg: MultiCategorical(logits=lg, action_dims=(2, 3)).log_prob(jnp.asarray([1, 2])))(jnp.arange(5.0)))
        lp_eager = float(MultiCategorical(logits=jnp.arange(5.0), action_dims=(2, 3)).log_prob(jnp.asarray([1, 2])))
        ck.count("MultiCategorical/flat-under-jit")
        if abs(lp_jit - lp_eager) > 1e-12:
            viol("C15/MultiCategorical/flat-under-jit", "flat parameterisation gives a different log_prob under jit", {"jit": lp_jit, "eager": lp_eager})
    except Exception as e:  # noqa: BLE001
        viol("C15/MultiCategorical/flat-under-jit",
             f"MultiCategorical(logits=<flat array>, action_dims=...) cannot be constructed under jax.jit: {type(e).__name__}: {str(e)[:140]}",
             {"reproducer": "jax.jit(lambda lg: MultiCategorical(logits=lg, action_dims=(2,3)).log_prob(jnp.array([1,2])))(jnp.arange(5.))",
              "cause": "multi_categorical.py:120 split_idx = jnp.cumsum(jnp.asarray(action_dims[:-1])) is traced under jit; jnp.split needs static indices"})

    # components of a product law are INDEPENDENT: with uniform logits two equal-sized components agree with probability 1/k per
    # draw; all of n draws agreeing has probability k^-n (< 1e-90 for n = 200), so "every draw has equal components" means the
    # components share their randomness.  Equal-sized components are the case where a per-size or per-shape key derivation collides.
    for dims in ([3, 3], [4, 2, 4], [2, 2, 2]):
        n = 200
        d = MultiCategorical(logits=jnp.zeros(sum(dims)), action_dims=tuple(dims))
        draws = np.asarray(jax.vmap(d.sample)(jr.split(jr.key(ck.seed + 17), n)))
        draws2 = np.asarray(jax.vmap(lambda k: d.sample_and_log_prob(k)[0])(jr.split(jr.key(ck.seed + 18), n)))
        ck.count("MultiCategorical/independence-probes")
        for arr, api in ((draws, "sample"), (draws2, "sample_and_log_prob")):
            for i in range(len(dims)):
                for k in range(i + 1, len(dims)):
                    if dims[i] == dims[k] and bool(np.all(arr[:, i] == arr[:, k])):
                        viol("C15/MultiCategorical/components-share-randomness",
                             f"components {i} and {k} (both of size {dims[i]}) took the same value in all {n} draws of {api}: a product law must draw its components independently",
                             {"action_dims": dims, "api": api, "first_draws": arr[:8].tolist()})

    # ------------------------------------------------------------------ Normal / MultivariateNormalDiag
    def normal_lit(mu, sg, pts, ent, mode, draws):
        pl = listl(f"({ql(x)}, {ql(lp)}, {ql(p)}, {ql(exp_o(lp))})" for x, lp, p in pts)
        dl = listl(f"({ql(x)}, {ql(lp)}, {ql(lpx)})" for x, lp, lpx in draws)
        return f"DNormal {ql(mu)} {ql(sg)} {ql(ln_o(sg))} {ql(HL2PI)} {pl} {ql(ent)} {ql(mode)} {dl}"

    for t in range(8 if quick else 30):
        k = int(rng.integers(1, 4))
        mu = np.round(rng.uniform(-4, 4, size=k), 3)
        sg = np.round(rng.uniform(0.2, 2.0, size=k), 3)
        ck.current_case = {"component": "Normal", "loc": mu.tolist(), "scale": sg.tolist()}
        d = Normal(jnp.asarray(mu), jnp.asarray(sg))
        mv = MultivariateNormalDiag(jnp.asarray(mu), jnp.asarray(sg))
        xs = mu + sg * rng.uniform(-5, 5, size=(5, k))
        lps = np.asarray(jax.vmap(d.log_prob)(jnp.asarray(xs)))
        prs = np.asarray(jax.vmap(d.prob)(jnp.asarray(xs)))
        ent = np.asarray(d.entropy())
        mode = np.asarray(d.mode())
        keys = jr.split(jr.key(int(rng.integers(2 ** 31))), nkeys)
        s, lp = map(np.asarray, jax.vmap(d.sample_and_log_prob)(keys))
        s1 = np.asarray(jax.vmap(d.sample)(keys))
        lpx = np.asarray(jax.vmap(d.log_prob)(jnp.asarray(s)))
        if not np.array_equal(s, s1):
            viol("C15/Normal/sample-vs-sample_and_log_prob", "sample(key) != sample_and_log_prob(key)[0]", {"loc": mu.tolist(), "scale": sg.tolist()})
        for i in range(k):
            j = {"component": "Normal", "loc": float(mu[i]), "scale": float(sg[i]), "points": xs[:, i].tolist(), "impl_log_probs": lps[:, i].tolist(),
                 "impl_entropy": float(ent[i]), "impl_mode": float(mode[i]), "impl_sample_and_log_prob": [s[:, i].tolist(), lp[:, i].tolist()]}
            add(normal_lit(mu[i], sg[i], list(zip(xs[:, i], lps[:, i], prs[:, i])), float(ent[i]), float(mode[i]),
                           list(zip(s[:, i], lp[:, i], lpx[:, i]))), j, ("normal", float(mu[i]), float(sg[i])))
        # product law: MultivariateNormalDiag against the scalar Normal components, at points and at its own samples
        mlp = np.asarray(jax.vmap(mv.log_prob)(jnp.asarray(xs)))
        ms, mlps = map(np.asarray, jax.vmap(mv.sample_and_log_prob)(keys))
        comp_at_s = np.asarray(jax.vmap(d.log_prob)(jnp.asarray(ms)))
        ment = float(mv.entropy())
        j = {"component": "MultivariateNormalDiag", "loc": mu.tolist(), "scale_diag": sg.tolist(), "points": xs.tolist(), "impl_joint_log_probs": mlp.tolist(),
             "impl_component_log_probs": lps.tolist(), "impl_entropy": ment, "impl_component_entropies": ent.tolist(),
             "impl_sample_and_log_prob": [ms.tolist(), mlps.tolist()]}
        comp = [list(r) for r in lps] + [list(r) for r in comp_at_s]
        joint = list(mlp) + list(mlps)
        add(f"DProd {listl(fl(c) for c in comp)} {fl(joint)} {fl(ent.tolist())} (Some {ql(ment)})", j, ("mvn", tuple(mu.tolist()), tuple(sg.tolist())) if k > 1 else None)
        if not np.allclose(np.asarray(mv.mode()), mu):
            viol("C15/MultivariateNormalDiag/mode", "mode differs from loc", j)

    # ------------------------------------------------------------------ SquashedNormal / SquashedMultivariateNormalDiag
    # constructor with Python-float bounds (signature says ArrayLike)
    for cls, sig, args in ((SquashedNormal, "C15/SquashedNormal/python-float-bounds", (0.0, 1.0)),
                           (SquashedMultivariateNormalDiag, "C15/SquashedMultivariateNormalDiag/python-float-bounds", (jnp.zeros(2), jnp.ones(2)))):
        try:
            dd = cls(*args, high=2.0, low=-1.0)
            y = np.asarray(dd.sample(jr.key(0)))
            ck.count(cls.__name__ + "/python-float-bounds")
            if not np.all((y >= -1.0) & (y <= 2.0)):
                viol(sig, "sample outside [low, high] with Python-float bounds", {"sample": y.tolist()})
        except Exception as e:  # noqa: BLE001
            viol(sig, f"{cls.__name__}(loc, scale, high=2.0, low=-1.0) with Python-float bounds (ArrayLike per the signature) raises {type(e).__name__}: {str(e)[:120]}",
                 {"reproducer": f"{cls.__name__}({'0.0, 1.0' if cls is SquashedNormal else 'jnp.zeros(2), jnp.ones(2)'}, high=2.0, low=-1.0)",
                  "cause": "eqx.error_if((high, low), ...) is called before jnp.asarray(high/low): a pytree of Python floats has no array to attach the check to"})

    def squash_lit(mu, sg, lo, hi, draws, mode):
        dl = []
        for x, y, lp, lpy in draws:
            s, ls, l1s = sig_o(x)
            dl.append(f"({ql(x)}, {ql(s)}, {ql(ls)}, {ql(l1s)}, {ql(y)}, {ql(lp)}, {ql(lpy)})")
        return (f"DSquash {ql(mu)} {ql(sg)} {ql(lo)} {ql(hi)} {ql(ln_o(sg))} {ql(HL2PI)} {ql(ln_o(hi - lo))} {listl(dl)} {ql(mode)} {ql(sig_o(mu)[0])}")

    for t in range(10 if quick else 40):
        k = int(rng.integers(1, 4))
        mu = np.round(rng.uniform(-4, 4, size=k), 3)
        sg = np.round(rng.uniform(0.2, 2.0, size=k), 3)
        lo = np.round(rng.uniform(-5, 2, size=k), 2)
        hi = lo + np.round(rng.uniform(0.1, 6, size=k), 2)
        if t == 0:
            lo, hi = -np.ones(k), np.ones(k)
        ck.current_case = {"component": "SquashedNormal", "loc": mu.tolist(), "scale": sg.tolist(), "low": lo.tolist(), "high": hi.tolist()}
        keys = jr.split(jr.key(int(rng.integers(2 ** 31))), nkeys)
        scal = [SquashedNormal(jnp.asarray(mu[i]), jnp.asarray(sg[i]), high=jnp.asarray(hi[i]), low=jnp.asarray(lo[i])) for i in range(k)]
        for i, d in enumerate(scal):
            ys, lps = map(np.asarray, jax.vmap(d.sample_and_log_prob)(keys))
            y1 = np.asarray(jax.vmap(d.sample)(keys))
            xs = np.asarray(jax.vmap(d.distribution.distribution.sample)(keys))
            lpy = np.asarray(jax.vmap(d.log_prob)(jnp.asarray(ys)))
            mode = float(d.mode())
            j = {"component": "SquashedNormal", "loc": float(mu[i]), "scale": float(sg[i]), "low": float(lo[i]), "high": float(hi[i]),
                 "base_samples": xs.tolist(), "impl_samples": ys.tolist(), "impl_reported_log_probs": lps.tolist(), "impl_log_prob_of_samples": lpy.tolist(), "impl_mode": mode}
            if not np.array_equal(ys, y1):
                viol("C15/SquashedNormal/sample-vs-sample_and_log_prob", "sample(key) != sample_and_log_prob(key)[0]", j)
            add(squash_lit(mu[i], sg[i], lo[i], hi[i], list(zip(xs, ys, lps, lpy)), mode), j, ("squash", float(mu[i]), float(sg[i]), float(lo[i]), float(hi[i])))
        # product law
        mv = SquashedMultivariateNormalDiag(jnp.asarray(mu), jnp.asarray(sg), high=jnp.asarray(hi), low=jnp.asarray(lo))
        ys, lps = map(np.asarray, jax.vmap(mv.sample_and_log_prob)(keys))
        lpy = np.asarray(jax.vmap(mv.log_prob)(jnp.asarray(ys)))
        comp = np.stack([np.asarray(jax.vmap(scal[i].log_prob)(jnp.asarray(ys[:, i]))) for i in range(k)], axis=1)
        mode = np.asarray(mv.mode())
        j = {"component": "SquashedMultivariateNormalDiag", "loc": mu.tolist(), "scale_diag": sg.tolist(), "low": lo.tolist(), "high": hi.tolist(),
             "impl_samples": ys.tolist(), "impl_reported_log_probs": lps.tolist(), "impl_log_prob_of_samples": lpy.tolist(),
             "impl_component_log_probs": comp.tolist(), "impl_mode": mode.tolist()}
        if not (np.all((ys >= lo) & (ys <= hi)) and np.all((mode >= lo) & (mode <= hi))):
            viol("C15/SquashedMultivariateNormalDiag/support", "sample or mode outside [low, high]", j)
        add(f"DProd {listl(fl(c) for c in list(comp) + list(comp))} {fl(list(lpy) + list(lps))} [] None", j, ("sqmvn", tuple(mu.tolist()), tuple(lo.tolist())) if k > 1 else None)

    # ---- edge of the support: lower bound 0 (floats resolve values down to 1e-38 next to it) and a base mean far towards that bound,
    #      as with a saturated actor: the samples are tiny but strictly inside, and sample_and_log_prob must still report exactly
    #      the log-density that log_prob assigns to the returned sample (scalar and product law)
    for t in range(4 if quick else 16):
        k = int(rng.integers(1, 4))
        # far enough for sigmoid(loc) to lie well below the machine epsilon of the dtype in use, far from underflow
        far = (42, 60) if jax.config.jax_enable_x64 else (16, 24)
        mu = -np.round(rng.uniform(*far, size=k), 2)
        sg = np.round(rng.uniform(0.3, 0.8, size=k), 2)
        lo = np.zeros(k); hi = np.asarray([float(rng.choice([1.0, 5.0, 0.5])) for _ in range(k)])
        keys = jr.split(jr.key(int(rng.integers(2 ** 31))), nkeys)
        ck.current_case = {"component": "Squashed*/edge-of-support", "loc": mu.tolist(), "scale": sg.tolist(), "low": lo.tolist(), "high": hi.tolist()}
        dists = [("SquashedNormal", SquashedNormal(jnp.asarray(mu[0]), jnp.asarray(sg[0]), high=jnp.asarray(hi[0]), low=jnp.asarray(lo[0]))),
                 ("SquashedMultivariateNormalDiag", SquashedMultivariateNormalDiag(jnp.asarray(mu), jnp.asarray(sg), high=jnp.asarray(hi), low=jnp.asarray(lo)))]
        for cname, d in dists:
            ys, lps = map(np.asarray, jax.vmap(d.sample_and_log_prob)(keys))
            lpy = np.asarray(jax.vmap(d.log_prob)(jnp.asarray(ys)))
            ck.evaluations += len(keys); ck.count("edge-of-support-samples", len(keys))
            ck.case_seen(("edge", cname, t))
            inside = np.all(ys > 0) and np.all(np.isfinite(lps)) and np.all(np.isfinite(lpy))
            if not inside:
                continue        # underflow to the bound itself: outside the regime this probe is about
            gap = float(np.max(np.abs(lps - lpy)))
            if gap > 1e-2:
                viol(f"C15/{cname}/sample_and_log_prob-vs-log_prob", f"sample_and_log_prob reports a log-probability that differs by {gap:.3g} nats from log_prob of the sample it returns "
                     "(samples close to the lower bound 0)",
                     {"component": cname, "loc": mu.tolist(), "scale": sg.tolist(), "low": lo.tolist(), "high": hi.tolist(),
                      "impl_samples": ys[:6].tolist(), "impl_reported_log_probs": lps[:6].tolist(), "impl_log_prob_of_samples": lpy[:6].tolist()})

    # ------------------------------------------------------------------ numerical exploration (search, not proof)
    explore = {}
    N = 4000 if quick else 40000
    thr = dkw(N)
    for t in range(3 if quick else 10):
        mu = float(np.round(rng.uniform(-2, 2), 2)); sg = float(np.round(rng.uniform(0.3, 1.5), 2))
        lo = float(np.round(rng.uniform(-3, 1), 1)); hi = lo + float(np.round(rng.uniform(0.5, 4), 1))
        nd = Normal(jnp.asarray(mu), jnp.asarray(sg))
        grid = np.linspace(mu - 12 * sg, mu + 12 * sg, 48001)
        dens = np.exp(np.asarray(jax.vmap(nd.log_prob)(jnp.asarray(grid))))
        mass = float(np.sum((dens[1:] + dens[:-1]) / 2 * np.diff(grid)))
        keys = jr.split(jr.key(int(rng.integers(2 ** 31))), N)
        xs, lps = map(np.asarray, jax.vmap(nd.sample_and_log_prob)(keys))
        xs_sorted = np.sort(xs)
        ecdf_hi = np.arange(1, N + 1) / N
        cdf = np.array([ncdf((x - mu) / sg) for x in xs_sorted])
        ks = float(max(np.max(np.abs(ecdf_hi - cdf)), np.max(np.abs(ecdf_hi - 1 / N - cdf))))
        mc_ent = float(-np.mean(lps)); ent = float(nd.entropy())
        rec = {"loc": mu, "scale": sg, "normal_mass": mass, "normal_ks": ks, "ks_threshold": thr, "mc_entropy": mc_ent, "entropy": ent}
        if abs(mass - 1) > 1e-6:
            viol("C15/Normal/total-mass", f"quadrature of exp(log_prob) = {mass}", rec)
        if ks > thr:
            viol("C15/Normal/samples-follow-density", f"KS distance {ks:.4f} > DKW threshold {thr:.4f} (N={N})", rec)
        if abs(mc_ent - ent) > 7 * math.sqrt(0.5 / N):
            viol("C15/Normal/entropy", f"Monte-Carlo -E[log p] = {mc_ent:.4f} vs entropy() = {ent:.4f}", rec)
        sq = SquashedNormal(jnp.asarray(mu), jnp.asarray(sg), high=jnp.asarray(hi), low=jnp.asarray(lo))
        M = 400000
        ymid = lo + (hi - lo) * (np.arange(M) + 0.5) / M
        sdens = np.exp(np.asarray(jax.vmap(sq.log_prob)(jnp.asarray(ymid))))
        smass = float(np.sum(sdens) * (hi - lo) / M)
        ys = np.sort(np.asarray(jax.vmap(sq.sample)(keys)))
        t_ = (ys - lo) / (hi - lo)
        ok = (t_ > 0) & (t_ < 1)
        xinv = np.log(t_[ok]) - np.log1p(-t_[ok])
        cdfy = np.array([ncdf((x - mu) / sg) for x in xinv])
        e_hi = (np.arange(1, N + 1) / N)[ok]
        sks = float(max(np.max(np.abs(e_hi - cdfy)), np.max(np.abs(e_hi - 1 / N - cdfy))))
        rec.update({"low": lo, "high": hi, "squashed_mass": smass, "squashed_ks": sks})
        if abs(smass - 1) > 1e-4:
            viol("C15/SquashedNormal/total-mass", f"quadrature of exp(log_prob) over (low, high) = {smass}", rec)
        if sks > thr or not np.all((ys >= lo) & (ys <= hi)):
            viol("C15/SquashedNormal/samples-follow-density", f"KS distance {sks:.4f} > DKW threshold {thr:.4f} (N={N}) or sample outside [low, high]", rec)
        explore[f"run{t}"] = rec
        ck.count("exploration-runs")
    # categorical sample frequencies against probs (DKW-style bound per class via Hoeffding + union)
    for t in range(2 if quick else 6):
        n = int(rng.integers(2, 7))
        logits = rng.normal(size=n) * 1.5
        d = Categorical(logits=jnp.asarray(logits))
        keys = jr.split(jr.key(int(rng.integers(2 ** 31))), N)
        s = np.asarray(jax.vmap(d.sample)(keys))
        freq = np.bincount(s.astype(int), minlength=n) / N
        dev = float(np.max(np.abs(freq - np.asarray(d.probs))))
        bound = math.sqrt(math.log(2 * n / 1e-10) / (2 * N))
        explore[f"cat{t}"] = {"logits": logits.tolist(), "max_freq_deviation": dev, "bound": bound}
        if dev > bound:
            viol("C15/Categorical/samples-follow-density", f"sample frequencies deviate from probs by {dev:.4f} > {bound:.4f} (N={N})", explore[f"cat{t}"])
        ck.count("exploration-runs")
    ck.extra_cov["numerical_exploration"] = explore
    ck.exhaustive = False

    ck.log(f"{len(cases)} cases generated")
    res = ck.run_coq_cases("C15Check", cases, shard=60)
    ck.classify(res, cj, sig_of=lambda i: "C15/" + cj[i]["component"],
                relation="softmax / log-prob / entropy / product-law / normal log-density / squashing formulas vs lerax distributions",
                what="distribution output violates a coherence law (mass, prob=exp(log_prob), support, sample log-prob, entropy, product law)")


if __name__ == "__main__":
    run_main("C15", body)
