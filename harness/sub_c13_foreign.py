"""C13: GymToLeraxEnv / GymnaxToLeraxEnv reproduce the trajectory of the environment they adapt
(twin run, default float32 mode).  Prints one line: RESULT <json>."""
from __future__ import annotations

import json
import os
import warnings

import numpy as np

warnings.filterwarnings("ignore")
from harness.common import setup_jax

jax = setup_jax(x64=False)
import jax.numpy as jnp  # noqa: E402
import jax.random as jr  # noqa: E402


class CK:
    def __init__(self):
        self.seed = int(os.environ.get("VERIF_SEED", "0") or 0)
        self.counts = {}; self.evaluations = 0; self.nontrivial = []; self.notes = []; self.violations = []

    def count(self, k, n=1):
        self.counts[k] = self.counts.get(k, 0) + n

    def case_seen(self, key=None, sample=None):
        self.evaluations += 1
        if key is not None:
            self.nontrivial.append(list(key))


class _V:
    def __init__(self, kind, sig, what, case=None, extra=None):
        self.d = {"sig": sig, "what": what, "case": case}


class _VL(list):
    def append(self, v):
        super().append(v.d)


Violation = _V

def foreign_adapters(ck, quick):
    """GymToLeraxEnv / GymnaxToLeraxEnv reproduce the trajectory of the environment they adapt (twin run)."""
    import gymnasium as gym
    from lerax.compatibility.gym import GymToLeraxEnv

    for name in (["CartPole-v1"] if quick else ["CartPole-v1", "MountainCar-v0", "Acrobot-v1", "Pendulum-v1"]):
        genv = gym.make(name); twin = gym.make(name)
        lenv = GymToLeraxEnv(genv)
        key = jr.key(ck.seed + 5)
        ik, ok = jr.split(key, 2)
        seed0 = int(jr.randint(ik, (), 0, jnp.iinfo(jnp.int32).max))
        st, obs, _ = lenv.reset(key=key)
        tobs, _ = twin.reset(seed=seed0)
        bad = not np.allclose(np.asarray(obs), tobs, rtol=1e-6, atol=1e-6)
        for t in range(30 if quick else 120):
            a = twin.action_space.sample() if t else twin.action_space.sample()
            k = jr.key(1000 + t + ck.seed)
            st, obs, rew, term, trunc, _ = lenv.step(st, jnp.asarray(a), key=k)
            tobs, trew, tterm, ttrunc, _ = twin.step(a)
            if tterm or ttrunc:
                rk = jr.split(k, 4)[3]
                tobs_next, _ = twin.reset(seed=int(jr.randint(rk, (), 0, jnp.iinfo(jnp.int32).max)))
            else:
                tobs_next = tobs
            ck.case_seen(("g2l", name, t) if (tterm or ttrunc or t == 3) else None)
            ck.count("adapter:GymToLeraxEnv")
            if not (np.allclose(np.asarray(obs), tobs_next, rtol=1e-6, atol=1e-6) and abs(float(rew) - float(trew)) < 1e-6 and bool(term) == bool(tterm) and bool(trunc) == bool(ttrunc)):
                bad = True
            if bad:
                ck.violations.append(Violation("impl-violates-property", f"C13/GymToLeraxEnv/{name}", "GymToLeraxEnv trajectory differs from the adapted Gymnasium environment",
                                               case={"env": name, "t": t, "lerax": [np.asarray(obs).tolist(), float(rew), bool(term), bool(trunc)], "twin": [np.asarray(tobs_next).tolist(), float(trew), bool(tterm), bool(ttrunc)]}))
                break
    try:
        import gymnax
        from lerax.compatibility.gymnax import GymnaxToLeraxEnv
        for name in (["CartPole-v1"] if quick else ["CartPole-v1", "MountainCar-v0", "Acrobot-v1"]):
            genv, params = gymnax.make(name)
            lenv = GymnaxToLeraxEnv(genv, params)
            k0 = jr.key(ck.seed + 9)
            st = lenv.initial(key=k0)
            tobs, tst = genv.reset_env(k0, params)
            bad = not np.allclose(np.asarray(lenv.observation(st, key=k0)), np.asarray(tobs))
            for t in range(20 if quick else 100):
                a = genv.action_space(params).sample(jr.key(t))
                k = jr.key(2000 + t)
                st = lenv.transition(st, a, key=k)
                tobs, tst, trew, tdone, _ = genv.step_env(k, tst, a, params)
                ck.case_seen(("x2l", name, t) if t == 3 or bool(tdone) else None); ck.count("adapter:GymnaxToLeraxEnv")
                if not (np.allclose(np.asarray(lenv.observation(st, key=k)), np.asarray(tobs)) and float(lenv.reward(st, a, st, key=k)) == float(trew) and bool(lenv.terminal(st, key=k)) == bool(tdone)):
                    bad = True
                if bad:
                    ck.violations.append(Violation("impl-violates-property", f"C13/GymnaxToLeraxEnv/{name}", "GymnaxToLeraxEnv trajectory differs from the adapted Gymnax environment", case={"env": name, "t": t}))
                    break
                if bool(tdone):
                    st = lenv.initial(key=k); tobs, tst = genv.reset_env(k, params)
    except ImportError as e:  # pragma: no cover
        ck.notes.append(f"gymnax unavailable: {e}")




if __name__ == "__main__":
    ck = CK(); ck.violations = _VL()
    foreign_adapters(ck, os.environ.get("VERIF_QUICK", "1") == "1")
    print("RESULT " + json.dumps({"counts": ck.counts, "evaluations": ck.evaluations, "nontrivial": ck.nontrivial,
                                  "notes": ck.notes, "violations": list(ck.violations)}, default=str))
