"""C17: lerax MuJoCo environments follow Gymnasium ``*-v5`` semantics (float32 differential check).

For every environment the installed Gymnasium v5 environment is the oracle.  The integrator is kept
OUT of the comparison: Gymnasium does the stepping, lerax's *own* ``observation`` / ``reward`` /
``terminal`` / ``transition_info`` / ``state_info`` / ``initial`` functions are evaluated on lerax
states rebuilt from the physical state that Gymnasium was in.

How a lerax state is rebuilt from a Gymnasium state
---------------------------------------------------
After ``mj_step`` the MuJoCo data holds the *new* qpos/qvel, but every derived quantity (xpos, xipos,
site_xpos, cinert, cvel, qfrc_actuator, qfrc_constraint, contact forces ...) is the one computed by
the *last forward evaluation inside the step* (Euler: at the state before the last sub-step; RK4: at
the 4th Runge-Kutta stage of the last sub-step).  Gymnasium's observation and reward read these stale
values.  A control callback (``mujoco.set_mjcb_control``) records qpos/qvel/qacc_warmstart of the last
forward evaluation ("eval state").  The lerax state is then

    data = mjx.make_data(model).replace(qpos=q_eval, qvel=v_eval, ctrl=action, qacc_warmstart=ws_eval)
    data = mjx.forward(model, data)                 # derived quantities == Gymnasium's
    data = data.replace(qpos=q_after, qvel=v_after) # generalized state   == Gymnasium's

which is exactly the structure ``mjx.step`` produces (forward, then advance qpos/qvel), minus the
integrator.  The "before" state of step t is the rebuilt "after" state of step t-1 (or the forwarded
reset state), as in Gymnasium.

``cfrc_ext``: Gymnasium calls ``mj_rnePostConstraint`` after every step; MJX only computes cfrc_ext
when the model has accelerometer/force/torque sensors (the Gymnasium models have none), so on the
lerax side it stays 0.  Components that depend on it are reported with the suffix ``(contact)`` and
tolerance 1e-2.  The extra phase ``step+cfrc`` overwrites ``_impl.cfrc_ext`` of the rebuilt state with
Gymnasium's value and re-evaluates lerax's formulas (tight tolerance): it separates "cfrc_ext is never
computed" from "the contact-cost / observation formula differs".

Prints one line: RESULT <json>.
"""
from __future__ import annotations

import argparse
import json
import sys
import time
import traceback
import warnings

import numpy as np

warnings.filterwarnings("ignore")
from harness.common import setup_jax  # noqa: E402

jax = setup_jax(x64=False)
import jax.numpy as jnp  # noqa: E402
import jax.random as jr  # noqa: E402

EPS32 = float(np.finfo(np.float32).eps)
RTOL = 1e-4
ATOL = 1e-5
CONTACT_TOL = 1e-2

# lerax class name -> gymnasium id
ENVS = {
    "Ant": "Ant-v5",
    "HalfCheetah": "HalfCheetah-v5",
    "Hopper": "Hopper-v5",
    "Humanoid": "Humanoid-v5",
    "HumanoidStandup": "HumanoidStandup-v5",
    "InvertedDoublePendulum": "InvertedDoublePendulum-v5",
    "InvertedPendulum": "InvertedPendulum-v5",
    "Pusher": "Pusher-v5",
    "Reacher": "Reacher-v5",
    "Swimmer": "Swimmer-v5",
    "Walker2d": "Walker2d-v5",
}

# info keys / reward components that are functions of cfrc_ext (solver-dependent contact forces)
CONTACT_KEYS = {"reward_contact", "reward_impact"}
# difference quotients (x_after - x_before) / dt: float32 cancellation error is eps*|x|/dt
VELOCITY_KEYS = {"x_velocity", "y_velocity", "reward_forward", "reward"}
# envs whose total reward contains a cfrc_ext term, and the gym info key holding it
CONTACT_REWARD_KEY = {"Ant": "reward_contact", "Humanoid": "reward_contact", "HumanoidStandup": "reward_impact"}


def log(*a):
    print("[c17]", *a, file=sys.stderr, flush=True)


# ----------------------------------------------------------------------------------------------
# comparison bookkeeping
# ----------------------------------------------------------------------------------------------
class Comp:
    """One compared quantity (phase, name): running max error + worst sample."""

    def __init__(self, phase, name, contact, tol):
        self.phase, self.name, self.contact, self.tol = phase, name, bool(contact), float(tol)
        self.n = 0
        self.max_abs = 0.0
        self.max_rel = 0.0
        self.worst_excess = -np.inf
        self.worst = None
        self.ok = True
        self.n_bad = 0          # samples beyond the tolerance

    def add(self, lerax, gym, ctx, extra_atol=0.0):
        l = np.asarray(lerax, dtype=np.float64).reshape(-1)
        g = np.asarray(gym, dtype=np.float64).reshape(-1)
        self.n += 1
        if l.shape != g.shape:
            self.ok = False
            self.max_abs = self.max_rel = float("inf")
            self.worst_excess = np.inf
            self.worst = dict(ctx, lerax=l.tolist(), gym=g.tolist(), entry=None,
                              why=f"shape mismatch lerax {l.shape} vs gym {g.shape}")
            return
        if l.size == 0:
            return
        with np.errstate(invalid="ignore"):
            err = np.abs(l - g)
        err = np.where(np.isnan(err), np.where(np.isnan(l) & np.isnan(g), 0.0, np.inf), err)
        mag = np.maximum(np.abs(l), np.abs(g))
        # "atol scaled to magnitude": ATOL * max(1, typical magnitude of the vector)
        scale = max(1.0, float(np.max(np.abs(g)))) if np.all(np.isfinite(g)) else 1.0
        allowed = self.tol * mag + ATOL * scale * (self.tol / RTOL) + extra_atol
        excess = err / np.maximum(allowed, 1e-300)
        i = int(np.argmax(excess))
        rel = err / np.maximum(np.abs(g), 1e-12)
        self.max_abs = max(self.max_abs, float(np.max(err)))
        self.max_rel = max(self.max_rel, float(rel[int(np.argmax(err))]))
        if excess[i] > 1.0:
            self.n_bad += 1
            # contact-derived quantities: MJX and MuJoCo-C may disagree on whether a contact is active at touch-down / lift-off
            # instants of the re-evaluated state, which flips isolated entries (a clipped force 0 <-> 1).  Such a component fails
            # only when the disagreement is systematic (more than 15% of the compared samples, and more than one sample).
            if not self.contact:
                self.ok = False
        if excess[i] > self.worst_excess:
            self.worst_excess = float(excess[i])
            self.worst = dict(ctx, entry=i, lerax=float(l[i]), gym=float(g[i]),
                              allowed_abs_err=float(allowed[i]))

    def to_json(self):
        name = self.name + ("(contact)" if self.contact and not self.name.endswith("(contact)") else "")
        if self.contact and self.ok and self.n_bad > max(1, 0.15 * self.n):
            self.ok = False
        worst = self.worst
        if self.ok and worst is not None:  # full reproducer context only for failing components (keeps RESULT small)
            keep = ("env", "phase", "t", "episode_seed", "reset_seed", "source", "qpos", "qvel", "action", "entry",
                    "obs_offset", "lerax", "gym", "allowed_abs_err")
            worst = {k: worst[k] for k in keep if k in worst}
        return {"phase": self.phase, "name": name, "contact": self.contact, "n": self.n,
                "max_abs_err": self.max_abs, "max_rel_err": self.max_rel, "tol": self.tol,
                "n_beyond_tol": self.n_bad, "ok": bool(self.ok), "worst": worst}


class Book:
    def __init__(self, env_name):
        self.env_name = env_name
        self.comps: dict = {}

    def add(self, phase, name, lerax, gym, ctx, contact=False, extra_atol=0.0, tol=None):
        k = (phase, name)
        if k not in self.comps:
            self.comps[k] = Comp(phase, name, contact, tol if tol is not None else (CONTACT_TOL if contact else RTOL))
        self.comps[k].add(lerax, gym, dict(ctx, env=self.env_name, phase=phase), extra_atol)

    def to_json(self):
        return [c.to_json() for c in self.comps.values()]


# ----------------------------------------------------------------------------------------------
# per-environment knowledge
# ----------------------------------------------------------------------------------------------
def obs_segments(name, genv, kw=None):
    """[(segment name, start, stop, contact)] describing the v5 observation layout (kw: constructor options)."""
    kw = kw or {}
    m = genv.model
    nq, nv, nb = m.nq, m.nv, m.nbody
    excl = kw.get("exclude_current_positions_from_observation", True)
    if name == "Ant":
        a = nq - (2 if excl else 0) + nv
        segs = [("obs[qpos,qvel]", 0, a, False)]
        if kw.get("include_cfrc_ext_in_observation", True):
            segs.append(("obs[cfrc_ext]", a, a + (nb - 1) * 6, True))
        return segs
    if name in ("Humanoid", "HumanoidStandup"):
        segs, a = [], 0
        for nm, n, contact in (("qpos", nq - (2 if excl else 0), False), ("qvel", nv, False),
                               ("cinert", (nb - 1) * 10, False), ("cvel", (nb - 1) * 6, False),
                               ("qfrc_actuator", nv - 6, False), ("cfrc_ext", (nb - 1) * 6, True)):
            if not kw.get(f"include_{nm}_in_observation", True):
                continue
            segs.append((f"obs[{nm}]", a, a + n, contact))
            a += n
        return segs
    if name == "InvertedDoublePendulum":
        # last entry: clip(qfrc_constraint)[0] is produced by the constraint solver (PGS/Newton/CG, warm start)
        return [("obs[qpos,sin,cos,qvel]", 0, 8, False), ("obs[qfrc_constraint]", 8, 9, True)]
    return [("obs", 0, None, False)]


def threshold_margin(name, genv):
    """distance of the current Gymnasium state to the nearest termination threshold (inf if none)."""
    d = genv.data
    vals = []
    if name == "Ant":
        lo, hi = genv._healthy_z_range
        vals = [d.qpos[2] - lo, d.qpos[2] - hi]
    elif name == "Humanoid":
        lo, hi = genv._healthy_z_range
        vals = [d.qpos[2] - lo, d.qpos[2] - hi]
    elif name == "Hopper":
        lo, hi = genv._healthy_z_range
        alo, ahi = genv._healthy_angle_range
        slo, shi = genv._healthy_state_range
        st = np.concatenate([d.qpos[2:], d.qvel])
        vals = [d.qpos[1] - lo, d.qpos[1] - hi, d.qpos[2] - alo, d.qpos[2] - ahi] + list(st - slo) + list(st - shi)
    elif name == "Walker2d":
        lo, hi = genv._healthy_z_range
        alo, ahi = genv._healthy_angle_range
        vals = [d.qpos[1] - lo, d.qpos[1] - hi, d.qpos[2] - alo, d.qpos[2] - ahi]
    elif name == "InvertedPendulum":
        vals = [abs(d.qpos[1]) - 0.2]
    elif name == "InvertedDoublePendulum":
        vals = [d.site_xpos[0][2] - 1.0]
    vals = [abs(float(v)) for v in vals if np.isfinite(v)]
    return min(vals) if vals else float("inf")


# ----------------------------------------------------------------------------------------------
class GymSide:
    """Gymnasium v5 environment + recording of the last forward evaluation inside a step."""

    def __init__(self, gym_id, **kwargs):
        import gymnasium as gym

        self.env = gym.make(gym_id, **kwargs).unwrapped  # no TimeLimit / checker wrappers
        self._rec = None

    def _cb(self, m, d):
        self._rec = (d.qpos.copy(), d.qvel.copy(), d.qacc_warmstart.copy())

    def reset(self, seed):
        obs, info = self.env.reset(seed=int(seed))
        return obs, info

    def reset_to(self, seed, qpos, qvel):
        """mj_resetData (through reset) and then put the env into (qpos, qvel) exactly as reset_model does."""
        self.env.reset(seed=int(seed))
        self.env.set_state(np.asarray(qpos, dtype=np.float64), np.asarray(qvel, dtype=np.float64))
        return self.env._get_obs()

    def pre(self, ctrl=None):
        d = self.env.data
        return {"q_eval": d.qpos.copy(), "v_eval": d.qvel.copy(), "ws": d.qacc_warmstart.copy(),
                "ctrl": np.zeros(self.env.model.nu) if ctrl is None else np.asarray(ctrl, dtype=np.float64),
                "q": d.qpos.copy(), "v": d.qvel.copy(), "cfrc": d.cfrc_ext.copy()}

    def step(self, action):
        import mujoco

        self._rec = None
        mujoco.set_mjcb_control(self._cb)
        try:
            obs, rew, term, trunc, info = self.env.step(action)
        finally:
            mujoco.set_mjcb_control(None)
        assert self._rec is not None, "control callback never fired"
        d = self.env.data
        p = {"q_eval": self._rec[0], "v_eval": self._rec[1], "ws": self._rec[2],
             "ctrl": np.asarray(action, dtype=np.float64), "q": d.qpos.copy(), "v": d.qvel.copy(),
             "cfrc": d.cfrc_ext.copy(), "stepped": True}
        return p, np.asarray(obs), float(rew), bool(term), dict(info)


class LeraxSide:
    """lerax env + jitted evaluation of its own functions on rebuilt states."""

    def __init__(self, name, post_rne=False, **kwargs):
        import equinox as eqx
        from mujoco import mjx

        import lerax.env.mujoco as lm
        from lerax.env.mujoco.base_mujoco import MujocoEnvState

        self.name = name
        self.env = env = getattr(lm, name)(**kwargs)
        self.base = mjx.make_data(env.model)
        self.compile_s = 0.0
        self._seen: set = set()
        f32 = lambda x: jnp.asarray(x, dtype=jnp.float32)  # noqa: E731

        def derive(base, q_eval, v_eval, ctrl, ws, q, v, stepped):
            d = base.replace(qpos=q_eval, qvel=v_eval, ctrl=ctrl, qacc_warmstart=ws)
            d = mjx.forward(env.model, d)
            if post_rne and stepped:
                # only when lerax's own transition() was observed to fill cfrc_ext (see native_cfrc_probe);
                # Gymnasium calls mj_rnePostConstraint after a step, never at reset
                d = mjx.rne_postconstraint(env.model, d)
            return d.replace(qpos=q, qvel=v)

        def evaluate(db, da, action, key):
            sb = MujocoEnvState(sim_state=db, t=jnp.array(0.0))
            sa = MujocoEnvState(sim_state=da, t=jnp.asarray(env.dt, dtype=jnp.float32))
            return {"obs": env.observation(sa, key=key),
                    "reward": env.reward(sb, action, sa, key=key),
                    "terminal": env.terminal(sa, key=key),
                    "info": env.transition_info(sb, action, sa)}

        def inject(d, cfrc):
            return d.tree_replace({"_impl.cfrc_ext": cfrc})

        def reset_eval(state, key):
            return {"obs": env.observation(state, key=key), "info": env.state_info(state),
                    "qpos": state.sim_state.qpos, "qvel": state.sim_state.qvel}

        def first_reward(state, da, action, key):
            sa = MujocoEnvState(sim_state=da, t=jnp.asarray(env.dt, dtype=jnp.float32))
            return {"reward": env.reward(state, action, sa, key=key), "info": env.transition_info(state, action, sa)}

        def forward_state(state):
            # derived quantities from mjx.forward; qpos/qvel restored because mjx.forward (unlike mj_forward)
            # normalizes free-joint quaternions inside qpos
            d0 = state.sim_state
            d = mjx.forward(env.model, d0)
            qdiff = jnp.max(jnp.abs(d.qpos - d0.qpos))
            return eqx.tree_at(lambda s: s.sim_state, state, d.replace(qpos=d0.qpos, qvel=d0.qvel)), qdiff

        def native_transition(d, action, key):
            s = MujocoEnvState(sim_state=d, t=jnp.array(0.0))
            return jnp.max(jnp.abs(env.transition(s, action, key=key).sim_state._impl.cfrc_ext))

        self.post_rne = post_rne
        self._native_transition = jax.jit(native_transition)
        self._derive = jax.jit(derive, static_argnames="stepped")
        self._evaluate = jax.jit(evaluate)
        self._inject = jax.jit(inject)
        self._initial = jax.jit(lambda key: env.initial(key=key))
        self._reset_eval = jax.jit(reset_eval)
        self._first_reward = jax.jit(first_reward)
        self._forward_state = jax.jit(forward_state)
        self.f32 = f32

    def _timed(self, fn, *a):
        """call a jitted function; the first call of each function is booked as compile (+first run) time"""
        k = (id(fn), a[-1] if isinstance(a[-1], bool) else None)
        first = k not in self._seen
        t = time.time()
        out = fn(*a)
        if first:
            jax.block_until_ready(out)
            self.compile_s += time.time() - t
            self._seen.add(k)
        return out

    def derive(self, p):
        f = self.f32
        stepped = bool(p.get("stepped", False)) and self.post_rne
        return self._timed(self._derive, self.base, f(p["q_eval"]), f(p["v_eval"]), f(p["ctrl"]), f(p["ws"]),
                           f(p["q"]), f(p["v"]), stepped)

    def evaluate(self, db, da, action, key):
        return jax.device_get(self._timed(self._evaluate, db, da, self.f32(action), key))

    def inject(self, d, cfrc):
        return self._timed(self._inject, d, self.f32(cfrc))

    def initial(self, key):
        return self._timed(self._initial, key)

    def reset_eval(self, state, key):
        return jax.device_get(self._timed(self._reset_eval, state, key))

    def first_reward(self, state, da, action, key):
        return jax.device_get(self._timed(self._first_reward, state, da, self.f32(action), key))

    def forward_state(self, state):
        return self._timed(self._forward_state, state)

    def native_transition_cfrc(self, d, action, key):
        return float(self._native_transition(d, self.f32(action), key))


# ----------------------------------------------------------------------------------------------
GROSS_TOL = 0.5


def compare_obs(book, phase, segs, lobs, gobs, ctx, contact_phase_tight=False, only_contact=False, gross=False):
    lobs = np.asarray(lobs).reshape(-1)
    gobs = np.asarray(gobs).reshape(-1)
    if lobs.shape != gobs.shape:
        book.add(phase, "obs_shape", lobs, gobs, ctx)
        return
    for nm, a, b, contact in segs:
        if only_contact and not contact:
            continue
        c = dict(ctx, obs_offset=a)
        if contact and contact_phase_tight:
            book.add(phase, nm, lobs[a:b], gobs[a:b], c, contact=False)
        elif contact and gross:
            # MJX and MuJoCo choose different tangent frames for the pyramidal friction cone -> only gross agreement
            book.add(phase, nm + "[norm]", np.linalg.norm(lobs[a:b]), np.linalg.norm(gobs[a:b]), c, contact=True, tol=GROSS_TOL)
        else:
            book.add(phase, nm, lobs[a:b], gobs[a:b], c, contact=contact)


def vel_extra_atol(name, genv, p_before, p_after):
    """float32 cancellation bound for (x_after - x_before)/dt style quantities (weights <= 1.25)."""
    x = max(1.0, float(np.max(np.abs(p_after["q"][:2]))), float(np.max(np.abs(p_before["q"][:2]))))
    return 1.25 * 4.0 * EPS32 * x / float(genv.dt)


def compare_infos(book, phase, name, genv, linfo, ginfo, ctx, extra_vel, skip_keys=(), contact_tight=False,
                  only_contact=False, gross=False):
    shared = sorted(set(linfo) & set(ginfo))
    for k in shared:
        if k in skip_keys:
            continue
        contact = k in CONTACT_KEYS
        if only_contact and not contact:
            continue
        ea = extra_vel if k in VELOCITY_KEYS else 0.0
        if contact and contact_tight:
            book.add(phase, f"info[{k}]", linfo[k], ginfo[k], ctx, contact=False)
        elif contact and gross:
            book.add(phase, f"info[{k}]", linfo[k], ginfo[k], ctx, contact=True, tol=GROSS_TOL)
        else:
            book.add(phase, f"info[{k}]", linfo[k], ginfo[k], ctx, contact=contact, extra_atol=ea)
    return set(linfo) - set(ginfo), set(ginfo) - set(linfo)


def native_cfrc_probe(G, L, seed, max_steps=100, tries=3):
    """Does lerax's REAL transition() leave a non-zero cfrc_ext where Gymnasium has contact forces?
    A Gymnasium rollout is searched for steps t where cfrc_ext is non-zero both before and after the step; lerax's
    transition is run from the rebuilt state t with the action Gymnasium used (so the contact persists).
    Returns (max|cfrc_ext| after lerax transition, max|cfrc_ext| in Gymnasium after the same step) or None when no
    contact was found.  Only used to decide how the step reconstruction post-processes the forwarded data."""
    genv = G.env
    genv.action_space.seed(seed + 555)
    G.reset(seed + 555)
    cands = []
    prev, m_prev = None, 0.0
    for _ in range(max_steps):
        a = genv.action_space.sample()
        p, _, _, term, _ = G.step(a)
        m = float(np.max(np.abs(p["cfrc"])))
        if prev is not None and min(m, m_prev) > 0.0:
            cands.append((min(m, m_prev), prev, a, m))
        prev, m_prev = p, m
        if term:
            G.reset(seed + 556 + len(cands))
            prev, m_prev = None, 0.0
    if not cands:
        return None
    cands.sort(key=lambda c: -c[0])
    best = (0.0, 0.0)
    for _, p, a, m in cands[:tries]:
        v = L.native_transition_cfrc(L.derive(p), a, jr.key(seed + 555))
        if v >= best[0]:
            best = (v, m)
    return best


def run_env(name, gym_id, steps, resets, seed, lerax_kwargs=None, gym_kwargs=None, tag=None, native=True, post_rne=None):
    """post_rne: reuse the finding of an earlier native probe of the same environment class (does lerax's transition() fill
    cfrc_ext?) instead of probing again; without it a non-probed run would rebuild states WITHOUT contact forces and report the
    harness's own omission as a difference."""
    t0 = time.time()
    out = {"compile_s": 0.0, "wall_s": 0.0, "n_steps": 0, "n_terminated": 0, "n_resets": 0,
           "n_skipped_near_threshold": 0, "components": [], "only_lerax_keys": [], "only_gym_keys": [],
           "notes": [], "error": None}
    book = Book(tag or name)
    try:
        G = GymSide(gym_id, **(gym_kwargs or {}))
        L = LeraxSide(name, post_rne=bool(post_rne), **(lerax_kwargs or {}))
        if name in CONTACT_REWARD_KEY and native:
            tn = time.time()
            pr = native_cfrc_probe(G, L, seed)
            out["native_probe_s"] = round(time.time() - tn, 3)
            out["native_cfrc_ext"] = None if pr is None else {"lerax_after_transition_max_abs": pr[0], "gym_max_abs": pr[1]}
            if pr is None:
                out["notes"].append("native cfrc_ext probe found no contact state")
            elif pr[0] > 0.0:
                # lerax's transition fills cfrc_ext (e.g. calls mjx.rne_postconstraint as Gymnasium does): rebuild likewise
                pre_compile = L.compile_s
                L = LeraxSide(name, post_rne=True, **(lerax_kwargs or {}))
                L.compile_s += pre_compile
                out["notes"].append("lerax transition() produced non-zero cfrc_ext: the reconstruction applies "
                                    "mjx.rne_postconstraint after mjx.forward (as Gymnasium applies mj_rnePostConstraint). "
                                    "MJX and MuJoCo pick different tangent frames for the pyramidal friction cone (observed on Ant: "
                                    "tangential contact force differs by ~30% for identical qpos/qvel), so '(contact)' components of "
                                    f"phase 'step' only check gross agreement (vector norm / cost within {GROSS_TOL}); the exact formula check "
                                    "is phase 'step+cfrc'.")
            else:
                out["notes"].append("lerax's real transition() was run once from a Gymnasium contact state: cfrc_ext stayed exactly 0 "
                                    f"(Gymnasium max|cfrc_ext| in that state: {pr[1]:.4g})")
        out["post_rne"] = bool(L.post_rne)
        genv, lenv = G.env, L.env
        # ---------------- static sanity: same model dimensions, frame skip, dt
        ctx0 = {"qpos": None, "qvel": None, "action": None}
        book.add("static", "nq,nv,nu,nbody", [lenv.mujoco_model.nq, lenv.mujoco_model.nv, lenv.mujoco_model.nu, lenv.mujoco_model.nbody],
                 [genv.model.nq, genv.model.nv, genv.model.nu, genv.model.nbody], ctx0)
        book.add("static", "frame_skip", lenv.frame_skip, genv.frame_skip, ctx0)
        book.add("static", "dt", float(lenv.dt), float(genv.dt), ctx0)
        book.add("static", "action_low", np.asarray(lenv.action_space.low), genv.action_space.low, ctx0)
        book.add("static", "action_high", np.asarray(lenv.action_space.high), genv.action_space.high, ctx0)
        book.add("static", "obs_dim", int(np.prod(lenv.observation_space.shape)), int(np.prod(genv.observation_space.shape)), ctx0)
        segs = obs_segments(name, genv, gym_kwargs)
        has_cfrc = name in CONTACT_REWARD_KEY
        only_l, only_g = set(), set()
        key = jr.key(seed)

        # ---------------- STEP part
        genv.action_space.seed(seed)
        episode = 0
        G.reset(seed + 1000 * episode)
        p_b = G.pre()
        d_b = L.derive(p_b)
        for t in range(steps):
            action = genv.action_space.sample()
            p_a, gobs, grew, gterm, ginfo = G.step(action)
            margin = threshold_margin(name, genv)
            d_a = L.derive(p_a)
            key, k = jr.split(key)
            ev = L.evaluate(d_b, d_a, action, k)
            ctx = {"t": t, "episode_seed": seed + 1000 * episode,
                   "qpos_before": p_b["q"].tolist(), "qvel_before": p_b["v"].tolist(),
                   "qpos_eval_before": p_b["q_eval"].tolist(), "qvel_eval_before": p_b["v_eval"].tolist(),
                   "ctrl_before": p_b["ctrl"].tolist(),
                   "action": np.asarray(action, dtype=np.float64).tolist(),
                   "qpos": p_a["q"].tolist(), "qvel": p_a["v"].tolist(),
                   "qpos_eval": p_a["q_eval"].tolist(), "qvel_eval": p_a["v_eval"].tolist()}
            ev_extra = vel_extra_atol(name, genv, p_b, p_a)
            near = margin < 1e-5
            if near:
                out["n_skipped_near_threshold"] += 1
            gross = L.post_rne
            compare_obs(book, "step", segs, ev["obs"], gobs, ctx, gross=gross)
            skip = ("reward_survive",) if near else ()
            ol, og = compare_infos(book, "step", name, genv, ev["info"], ginfo, ctx, ev_extra, skip_keys=skip, gross=gross)
            only_l |= ol
            only_g |= og
            if not near:
                book.add("step", "terminated", float(bool(ev["terminal"])), float(gterm), ctx, tol=RTOL)
                ckey = CONTACT_REWARD_KEY.get(name)
                ctol = GROSS_TOL if gross else CONTACT_TOL
                extra = ev_extra + (ctol * max(abs(float(ginfo.get(ckey, 0.0))), abs(float(ev["info"].get(ckey, 0.0)))) if ckey else 0.0)
                book.add("step", "reward", ev["reward"], grew, ctx, extra_atol=extra)
            # ---- diagnostic: same formulas with Gymnasium's cfrc_ext written into the lerax state
            if has_cfrc:
                d_bi = L.inject(d_b, p_b["cfrc"])
                d_ai = L.inject(d_a, p_a["cfrc"])
                key, k = jr.split(key)
                evi = L.evaluate(d_bi, d_ai, action, k)
                compare_obs(book, "step+cfrc", segs, evi["obs"], gobs, ctx, contact_phase_tight=True, only_contact=True)
                compare_infos(book, "step+cfrc", name, genv, evi["info"], ginfo, ctx, ev_extra, contact_tight=True,
                              only_contact=True)
                if not near:
                    book.add("step+cfrc", "reward", evi["reward"], grew, ctx, extra_atol=ev_extra)
            out["n_steps"] += 1
            if gterm:
                out["n_terminated"] += 1
                episode += 1
                G.reset(seed + 1000 * episode)
                p_b = G.pre()
                d_b = L.derive(p_b)
            else:
                p_b, d_b = p_a, d_a

        # ---------------- RESET part
        max_qdiff = 0.0
        for r in range(resets):
            # (b') Gymnasium's own reset: lerax observation of the forwarded state at Gymnasium's qpos/qvel
            gobs0, ginfo0 = G.reset(seed + 7 + r)
            p0 = G.pre()
            d0 = L.derive(p0)
            key, k = jr.split(key)
            ev0 = L.evaluate(d0, d0, np.zeros(genv.model.nu), k)
            ctx = {"reset_seed": seed + 7 + r, "source": "gymnasium reset", "qpos": p0["q"].tolist(), "qvel": p0["v"].tolist(),
                   "action": None}
            compare_obs(book, "reset+forward", segs, ev0["obs"], gobs0, ctx)

            # (a) the real lerax initial state: Gymnasium is put into the same qpos/qvel
            key, k_init, k_obs, k_rew = jr.split(key, 4)
            s0 = L.initial(k_init)
            re = L.reset_eval(s0, k_obs)
            q0, v0 = np.asarray(re["qpos"], dtype=np.float64), np.asarray(re["qvel"], dtype=np.float64)
            gobs_l = G.reset_to(seed + 7 + r, q0, v0)
            ginfo_l = genv._get_reset_info()
            ctx = {"lerax_initial_key": f"jr.split(...)[{r}] of jr.key({seed})", "source": "lerax initial()",
                   "qpos": q0.tolist(), "qvel": v0.tolist(), "action": None}
            compare_obs(book, "reset", segs, re["obs"], gobs_l, ctx)
            for kk in sorted(set(re["info"]) & set(ginfo_l)):
                book.add("reset", f"info[{kk}]", re["info"][kk], ginfo_l[kk], ctx)
            # (b) diagnostic: same state after mjx.forward
            s0f, qdiff = L.forward_state(s0)
            max_qdiff = max(max_qdiff, float(qdiff))
            ref = L.reset_eval(s0f, k_obs)
            compare_obs(book, "reset+forward", segs, ref["obs"], gobs_l, dict(ctx, source="lerax initial() + mjx.forward"))
            # first-step reward from the real lerax initial state
            p_init = G.pre()
            action = genv.action_space.sample()
            p1, gobs1, grew1, gterm1, ginfo1 = G.step(action)
            if threshold_margin(name, genv) >= 1e-5:
                d1 = L.derive(p1)
                fr = L.first_reward(s0, d1, action, k_rew)
                ctx1 = dict(ctx, action=np.asarray(action, dtype=np.float64).tolist(),
                            qpos_after=p1["q"].tolist(), qvel_after=p1["v"].tolist(),
                            qpos_eval=p1["q_eval"].tolist(), qvel_eval=p1["v_eval"].tolist())
                ev_extra = vel_extra_atol(name, genv, p_init, p1)
                ckey = CONTACT_REWARD_KEY.get(name)
                # the cfrc_ext term is judged in phases 'step' / 'step+cfrc'; here the total reward tolerates it fully
                contact_term = abs(float(ginfo1.get(ckey, 0.0))) if ckey else 0.0
                book.add("first-step-reward", "reward", fr["reward"], grew1, ctx1, extra_atol=ev_extra + contact_term)
                for kk in sorted(set(fr["info"]) & set(ginfo1)):
                    if kk in CONTACT_KEYS:
                        continue
                    book.add("first-step-reward", f"info[{kk}]", fr["info"][kk], ginfo1[kk], ctx1,
                             extra_atol=ev_extra if kk in VELOCITY_KEYS else 0.0)
            out["n_resets"] += 1

        if max_qdiff > 1e-6:
            out["notes"].append(
                f"mjx.forward changed qpos of a lerax initial state by up to {max_qdiff:.3g}: MJX normalizes free-joint quaternions "
                "in qpos during forward kinematics, MuJoCo's mj_forward (Gymnasium set_state) leaves qpos untouched. The "
                "'reset+forward' diagnostic restores qpos/qvel after mjx.forward; an initial() that calls mjx.forward yields "
                "normalized quaternions in the reset observation (same physical state, compared at that qpos in phase 'reset').")
        out["only_lerax_keys"] = sorted(only_l)
        out["only_gym_keys"] = sorted(only_g)
        out["compile_s"] = round(L.compile_s, 3)
        if has_cfrc:
            out["notes"].append(
                "cfrc_ext: Gymnasium calls mj_rnePostConstraint after every step; MJX forward/step only fill cfrc_ext when the "
                "model has accelerometer/force/torque sensors, so it is 0 on the lerax side unless "
                "lerax calls mjx.rne_postconstraint itself (see native_cfrc_ext). '(contact)' components in phase 'step' therefore compare against 0; phase 'step+cfrc' "
                "re-evaluates the lerax formulas with Gymnasium's cfrc_ext written into the state (tight tolerance). "
                "In phase 'first-step-reward' the total reward tolerates the full |contact term|.")
        if name in ("Humanoid", "HumanoidStandup"):
            out["notes"].append("lerax ships humanoid(.standup).xml with solver=Newton, Gymnasium with solver=PGS (MJX has no PGS); "
                                "only cfrc_ext-derived quantities depend on it.")
        failing = {(c.phase, c.name) for c in book.comps.values() if not c.ok}
        if name == "HumanoidStandup" and ("step", "info[reward_linup]") in failing:
            out["notes"].append("reward_linup: Gymnasium v5 *code* computes qpos[2] / model.opt.timestep (0.003) and ignores uph_cost_weight; "
                                "its docstring says z / dt with dt = frame_skip * timestep. lerax divides by dt (0.015): matches the "
                                "docstring, differs from the installed implementation by the factor frame_skip = 5.")
        if name == "Pusher" and ("step", "obs") in failing:
            out["notes"].append("Pusher: Gymnasium's get_body_com() returns data.body(name).xpos (body frame origin); lerax reads data.xipos "
                                "(body centre of mass). They differ for 'tips_arm' (offset 0.1 along the arm), hence obs[14:17] and reward_near.")
        if name == "Humanoid" and ("step+cfrc", "info[reward_contact]") in failing:
            out["notes"].append("Humanoid contact cost: Gymnasium clips weight*sum(cfrc_ext^2) to contact_cost_range; lerax clips "
                                "sum(cfrc_ext^2) first and multiplies by the weight afterwards (cost can never exceed 10*5e-7).")
        if any(ph == "reset" for ph, _ in failing) and not any(ph == "reset+forward" for ph, _ in failing):
            out["notes"].append("reset observation/info differs from Gymnasium but agrees once mjx.forward is applied to the lerax initial "
                                "state: initial() returns a state whose derived quantities (xpos, xipos, cinert, cvel, tendon, ...) are "
                                "still the zeros of mjx.make_data.")
        if name == "InvertedDoublePendulum":
            out["notes"].append("obs[qfrc_constraint] is solver output (joint-limit/contact force on the slider); compared at 1e-2.")
    except Exception as e:  # noqa: BLE001
        out["error"] = f"{type(e).__name__}: {e}\n" + traceback.format_exc()[-3000:]
        try:
            out["compile_s"] = round(L.compile_s, 3)  # type: ignore[name-defined]
        except Exception:  # noqa: BLE001
            pass
    out["components"] = book.to_json()
    out["wall_s"] = round(time.time() - t0, 3)
    return out


# ----------------------------------------------------------------------------------------------
# --options mode: documented constructor options, same machinery with non-default constructors
# ----------------------------------------------------------------------------------------------
OPTION_CASES = {
    "Ant": [dict(exclude_current_positions_from_observation=False), dict(include_cfrc_ext_in_observation=False),
            dict(terminate_when_unhealthy=False)],
    "HalfCheetah": [dict(exclude_current_positions_from_observation=False)],
    "Hopper": [dict(exclude_current_positions_from_observation=False), dict(terminate_when_unhealthy=False)],
    "Walker2d": [dict(exclude_current_positions_from_observation=False), dict(terminate_when_unhealthy=False)],
    "Swimmer": [dict(exclude_current_positions_from_observation=False)],
    "Humanoid": [dict(exclude_current_positions_from_observation=False, include_cinert_in_observation=False,
                      include_cfrc_ext_in_observation=False), dict(terminate_when_unhealthy=False)],
    "HumanoidStandup": [dict(exclude_current_positions_from_observation=False, include_cvel_in_observation=False,
                             include_qfrc_actuator_in_observation=False)],
}


def main():
    ap = argparse.ArgumentParser()
    ap.add_argument("--envs", default=",".join(ENVS))
    ap.add_argument("--steps", type=int, default=40)
    ap.add_argument("--resets", type=int, default=3)
    ap.add_argument("--seed", type=int, default=0)
    ap.add_argument("--options", action="store_true", help="also run documented non-default constructor options")
    ap.add_argument("--no-native", action="store_true", help="skip the one-step run of lerax's real transition() (cfrc_ext probe)")
    ap.add_argument("--no-cache", action="store_true", help="disable the persistent XLA compilation cache (honest compile_s)")
    a = ap.parse_args()
    if a.no_cache:
        try:
            jax.config.update("jax_enable_compilation_cache", False)
        except Exception:  # noqa: BLE001
            jax.config.update("jax_compilation_cache_dir", None)
    t0 = time.time()
    res = {"envs": {}, "wall_s": 0.0, "params": {"steps": a.steps, "resets": a.resets, "seed": a.seed, "options": a.options,
                                                 "rtol": RTOL, "atol": ATOL, "contact_tol": CONTACT_TOL}}
    for name in [x for x in a.envs.split(",") if x]:
        if name not in ENVS:
            res["envs"][name] = {"error": f"unknown env {name}", "components": []}
            continue
        log(f"{name}: start")
        r = run_env(name, ENVS[name], a.steps, a.resets, a.seed, native=not a.no_native)
        res["envs"][name] = r
        bad = [f"{c['phase']}:{c['name']}" for c in r["components"] if not c["ok"]]
        log(f"{name}: compile {r['compile_s']}s wall {r['wall_s']}s steps {r['n_steps']} term {r.get('n_terminated')} "
            f"error={bool(r['error'])} failing={bad}")
        if a.options:
            for i, kw in enumerate(OPTION_CASES.get(name, [])):
                tag = name + "(" + ",".join(f"{k}={v}" for k, v in kw.items()) + ")"
                log(f"{tag}: start")
                # an option that names the contact forces may change whether lerax's transition() fills them: probe that variant itself
                # (one run of its real transition()); the other variants reuse the finding of the default constructor
                own_probe = (not a.no_native) and name in CONTACT_REWARD_KEY and any("cfrc" in k for k in kw)
                r = run_env(name, ENVS[name], max(10, a.steps // 2), 1, a.seed + 1 + i, lerax_kwargs=kw, gym_kwargs=kw, tag=tag, native=own_probe,
                            post_rne=None if own_probe else res["envs"][name].get("post_rne"))
                res["envs"][tag] = r
                bad = [f"{c['phase']}:{c['name']}" for c in r["components"] if not c["ok"]]
                log(f"{tag}: wall {r['wall_s']}s error={bool(r['error'])} failing={bad}")
    res["wall_s"] = round(time.time() - t0, 3)
    print("RESULT " + json.dumps(res, default=lambda o: np.asarray(o).tolist()))


if __name__ == "__main__":
    main()
