"""C09 — each epoch partitions the rollout into disjoint, intact minibatches.

Tie (A): real `RolloutBuffer` objects whose EVERY array leaf (pytree-structured
observations/actions, rewards, dones, log-probs, values, returns, advantages,
policy states, action masks) carries the sample id e*T+t.  The real
flatten_axes / batch_indices / gather / batches / sample are called and Coq
(Lerax.C09Check.agree/holds) compares ids: index rows form the partition the
property states, every leaf of every minibatch row carries one and the same id,
flattening neither loses nor duplicates an id.  The permutation the PRNG
actually produced for the same key is passed to the model as an oracle.

Tie (B): the real `PPO.train` (epochs x minibatches, real key splitting) on a
gradient-tagging stub policy with plain SGD: the parameter delta after an
update reveals, for every (sample id, global minibatch number), how often the
sample was trained on and with which advantage / return (alignment), so the
per-epoch visit structure is recovered end to end (Lerax.C09Check.eagree/eholds).
"""
from __future__ import annotations

import math
from typing import Any, ClassVar

import numpy as np

from harness.common import Violation, bl, jsonable, listl, run_main, setup_jax, zl

jax = setup_jax(x64=True)
import equinox as eqx  # noqa: E402
import jax.numpy as jnp  # noqa: E402
import jax.random as jr  # noqa: E402
import optax  # noqa: E402
from jax import lax  # noqa: E402
from jaxtyping import Array  # noqa: E402

from lerax.algorithm import PPO  # noqa: E402
from lerax.buffer import RolloutBuffer  # noqa: E402
from lerax.policy import AbstractActorCriticPolicy, AbstractPolicyState  # noqa: E402
from lerax.space import Discrete  # noqa: E402

NBITS = 8  # action masks carry the id in binary
SENT = 10**6  # sentinel id for "could not decode"


# ----------------------------------------------------------------------------
# buffers whose every leaf carries the id
# ----------------------------------------------------------------------------
class TagPState(AbstractPolicyState):
    h: Array
    aux: Any


def bits_of(ids):
    return ((ids[..., None] >> jnp.arange(NBITS)) & 1).astype(bool)


def make_buffer(ids, variant: int):
    """ids: int array of shape (E,T) or (T,) holding e*T+t.  Every array leaf carries ids."""
    f = ids.astype(float)
    if variant % 3 == 0:
        obs = f
        act = ids
    elif variant % 3 == 1:
        obs = {"pos": f[..., None] * jnp.ones(3), "img": jnp.broadcast_to(ids[..., None, None], ids.shape + (2, 2)),
               "t": (ids, f)}
        act = (ids, {"x": f[..., None] * jnp.ones(2)})
    else:
        obs = (ids, {"a": f[..., None]})
        act = {"k": ids, "v": (f, f[..., None] * jnp.ones(2))}
    states = None if variant % 4 == 0 else TagPState(h=ids, aux=(f[..., None] * jnp.ones(2), {"z": ids}))
    if variant % 2 == 0:
        masks = bits_of(ids)
    elif variant % 5 == 1:
        masks = None
    else:
        masks = {"m": bits_of(ids), "n": (bits_of(ids),)}
    return RolloutBuffer(observations=obs, actions=act, rewards=f, dones=(ids % 2 == 1), log_probs=f, values=f,
                         states=states, action_masks=masks, returns=f, advantages=f)


def decode(buf, lead_shape):
    """-> (names, fields, par): `fields[j]` = ids carried by column j (one per trailing component of
    every array leaf), each of shape lead_shape flattened in C order...; par = dones leaf as 0/1.
    A value that is not a non-negative integer decodes to -1 (rejected by the Coq predicate)."""
    leaves = jax.tree_util.tree_flatten_with_path(buf)[0]
    names, fields, par = [], [], None
    nlead = len(lead_shape)
    for path, leaf in leaves:
        name = jax.tree_util.keystr(path)
        a = np.asarray(leaf)
        if tuple(a.shape[:nlead]) != tuple(lead_shape):
            # wrong leading shape: cannot be compared leaf-wise; report as an undecodable leaf
            names.append(name + "!shape"); fields.append(np.full(int(np.prod(lead_shape)), -1).reshape(lead_shape))
            continue
        if name == ".dones":
            par = a.astype(np.int64)
            continue
        if a.dtype == np.bool_:
            bits = a.reshape(tuple(lead_shape) + (int(np.prod(a.shape[nlead:])) // NBITS, NBITS))
            vals = (bits.astype(np.int64) << np.arange(NBITS)).sum(-1)
            for j in range(vals.shape[-1]):
                names.append(f"{name}[bits{j}]"); fields.append(vals[..., j])
            continue
        cols = a.reshape(tuple(lead_shape) + (int(np.prod(a.shape[nlead:])),))
        for j in range(cols.shape[-1]):
            c = cols[..., j]
            if c.dtype.kind == "f":
                okm = np.isfinite(c) & (np.floor(np.where(np.isfinite(c), c, 0)) == np.where(np.isfinite(c), c, 0)) & (c >= 0)
                c = np.where(okm, np.where(np.isfinite(c), c, 0), -1).astype(np.int64)
            names.append(f"{name}[{j}]"); fields.append(np.asarray(c, dtype=np.int64))
    return names, fields, par


def zll(x):
    return listl(zl(v) for v in x)


def zll2(x):
    return listl(zll(r) for r in x)


def zll3(x):
    return listl(zll2(r) for r in x)


def case_lit(sampling, E, T, B, perm, rows, flat, fpar, gath, gpar):
    return (f"C09Check.Build_case {bl(sampling)} {zl(E)} {zl(T)} {zl(B)} {zll(perm)} {zll2(rows)} {zll2(flat)} "
            f"{zll(fpar)} {zll3(gath)} {zll2(gpar)}")


def _unstack(b):
    """the minibatches of a stacked buffer (leading axis = minibatch)"""
    n = int(np.asarray(b.rewards).shape[0])
    for i in range(n):
        yield jax.tree.map(lambda x: x[i], b)


def api_cases(ck, quick):
    rng = ck.rng
    cases, cj = [], []
    n_cfg = 36 if quick else 500
    cfgs = []
    # forced corners first: B=1, B=N, B not dividing N, B>N, num_envs=1, single step
    for (E, T, B) in [(1, 1, 1), (1, 5, 2), (3, 1, 2), (2, 3, 1), (2, 3, 6), (2, 3, 4), (2, 3, 7), (4, 4, 4), (3, 5, 4), (5, 7, 6),
                      (4, 8, 32), (4, 8, 5), (6, 16, 32), (6, 16, 7), (2, 8, 3)]:
        cfgs.append((E, T, B))
    while len(cfgs) < n_cfg:
        E = int(rng.integers(1, 7)); T = int(rng.integers(1, 17))
        N = E * T
        mode = rng.random()
        if mode < 0.15:
            B = 1 if N <= 24 else int(rng.integers(2, 5))
        elif mode < 0.3:
            B = N
        elif mode < 0.4:
            B = N + int(rng.integers(1, 4))
        elif mode < 0.6:
            B = max(1, N // int(rng.integers(1, 9)))  # PPO's batch_size = N // num_batches
        else:
            B = int(rng.integers(1, N + 1))
        cfgs.append((E, T, B))

    for ci, (E, T, B) in enumerate(cfgs):
        N = E * T
        variant = ci % 60
        flat1d = (E == 1 and ci % 2 == 0)  # num_envs == 1: on_policy.iteration hands train a buffer of shape (T,)
        ids = jnp.arange(N).reshape((T,) if flat1d else (E, T))
        buf0 = make_buffer(ids, variant)
        seed = int(rng.integers(0, 2**31 - 1))
        apis = ["indices+gather", "batches", "sample", "sequential"] if ci % 3 != 2 else ["indices+gather", "batches(axes)", "sample", "sequential-batches"]
        if ci % 3 == 1 and not flat1d:
            apis.append("batches(swapped)")
        for api in apis:
            key = jr.key(seed)
            ck.current_case = {"api": api, "num_envs": E, "num_steps": T, "batch_size": B, "seed": seed, "variant": variant, "shape1d": flat1d}
            if api == "batches(swapped)":
                # batch_axes=(1,0): step-major flattening; the buffer is tagged t*E+e so that the model
                # (row-major over the moved axes) again predicts 0..N-1
                buf = make_buffer(jnp.arange(N).reshape(T, E).T, variant)
                flat = buf.flatten_axes((1, 0))
            else:
                buf = buf0
                flat = buf.flatten_axes()
            names, ffields, fpar = decode(flat, (N,))
            sampling = api == "sample"
            if sampling:
                if B > N:
                    continue  # documented ValueError; nothing to partition
                out = buf.sample(B, key=key)
                perm = np.asarray(jr.choice(key, N, shape=(B,), replace=False))
                rows = perm.reshape(1, B)
                gnames, g, gp = decode(out, (B,))
                gath = [[np.asarray(x) for x in g]]
                gpar = [gp]
            else:
                k = None if api.startswith("sequential") else key
                perm = np.arange(N) if k is None else np.asarray(jr.permutation(k, N))
                rows_j = flat.batch_indices(B, key=k)
                rows = np.asarray(rows_j)
                if rows.ndim != 2:
                    rows = rows.reshape(rows.shape[0], -1)
                nb = rows.shape[0]
                if api in ("indices+gather", "sequential"):
                    if nb == 0:
                        gath, gpar = [], []
                    elif nb <= 3:
                        gath, gpar = [], []
                        for r in range(nb):
                            gnames, g, gp = decode(flat.gather(rows_j[r]), (rows.shape[1],))
                            gath.append(g); gpar.append(gp)
                    else:
                        stacked = jax.vmap(flat.gather)(rows_j)
                        gnames, g, gp = decode(stacked, (nb, rows.shape[1]))
                        gath = [[x[r] for x in g] for r in range(nb)]; gpar = [gp[r] for r in range(nb)]
                else:
                    if api == "batches(axes)":
                        axes = 0 if flat1d else (0, 1)
                        out = buf.batches(B, key=k, batch_axes=axes)
                    elif api == "batches(swapped)":
                        out = buf.batches(B, key=k, batch_axes=(1, 0))
                    else:
                        out = buf.batches(B, key=k)
                    lead = tuple(np.asarray(out.rewards).shape)
                    if len(lead) != 2:
                        lead = (nb, B)
                    gnames, g, gp = decode(out, lead)
                    gath = [[x[r] for x in g] for r in range(lead[0])]; gpar = [gp[r] for r in range(lead[0])]
            if fpar is None or any(p is None for p in gpar):
                raise AssertionError("harness: dones leaf not found")
            mE, mT = (T, E) if api == "batches(swapped)" else (E, T)
            cases.append(case_lit(sampling, mE, mT, B, perm, rows, [x.reshape(-1) for x in ffields], fpar.reshape(-1),
                                  [[np.asarray(x).reshape(-1) for x in g] for g in gath], [np.asarray(p).reshape(-1) for p in gpar]))
            j = dict(ck.current_case)
            j.update({"N": N, "leaves": names, "oracle_perm_or_choice": perm.tolist(), "impl_index_rows": rows.tolist(),
                      "impl_flat_ids_first_leaf": ffields[0].reshape(-1).tolist(),
                      "impl_flat_leaves_all_equal": bool(all(np.array_equal(ffields[0], x) for x in ffields)),
                      "impl_minibatch_ids_first_leaf": [np.asarray(g[0]).reshape(-1).tolist() for g in gath],
                      "impl_minibatch_leaves_all_equal": [bool(all(np.array_equal(g[0], x) for x in g)) for g in gath],
                      "note": "re-run: build the buffer with make_buffer(arange(N).reshape(E,T), variant) and call the named api with jr.key(seed)"})
            cj.append(j)
            nontriv = (N % B != 0 and B < N) or (1 < B < N)
            ck.case_seen((api, E, T, B, variant % 12) if nontriv else None, sample=j if nontriv and N >= 6 else None)
            ck.count(f"api={api}")
            ck.count("B=1" if B == 1 else "B=N" if B == N else "B>N" if B > N else "B|N" if N % B == 0 else "B∤N")
            ck.count(f"leaves={len(names)}")
    return cases, cj


# ----------------------------------------------------------------------------
# gradient tagging through the real PPO.train
# ----------------------------------------------------------------------------
class TagPolicy(AbstractActorCriticPolicy):
    """Stub actor-critic whose parameters are tag tables indexed by (sample id, global minibatch
    number).  With plain SGD (lr 1) one update leaves in
       Z[i,k]  (entropy channel)   count(i,k) / B
       W[i,k]  (value channel)    -sum (B + i - return_id) / B        over the visits of i in minibatch k
       U[i,k]  (policy channel)    sum advantage / B = sum (adv_id + 1)
    and the clock c counts minibatches.  approx_kl is 0 (up to the rounding of jnp.mean) iff observation,
    action, policy state, action mask and stored log-prob of every trained row belong to one sample;
    a single misaligned row contributes at least (e^-1)/(B*K) > 1e-5."""
    name: ClassVar[str] = "TagPolicy"
    action_space: Any
    observation_space: Any
    W: Array
    U: Array
    Z: Array
    c: Array
    B: int = eqx.field(static=True)

    def __init__(self, N, K, B):
        self.action_space = Discrete(max(N, 1)); self.observation_space = Discrete(max(N, 1))
        self.W = jnp.zeros((N, K)); self.U = jnp.zeros((N, K)); self.Z = jnp.zeros((N, K)); self.c = jnp.zeros(())
        self.B = int(B)

    def reset(self, *, key):
        return TagPState(h=jnp.zeros((), int), aux=(jnp.zeros(2), {"z": jnp.zeros((), int)}))

    def __call__(self, state, observation, *, key=None, action_mask=None):
        return state, jnp.zeros((), int)

    def action_and_value(self, state, observation, *, key, action_mask=None):
        return state, jnp.zeros((), int), jnp.zeros(()), jnp.zeros(())

    def value(self, state, observation):
        return state, jnp.zeros(())

    def evaluate_action(self, state, observation, action, *, action_mask=None):
        i = jnp.asarray(observation["id"], int)
        others = [jnp.asarray(x).reshape(-1) for x in jax.tree.leaves((observation["more"], action, state))]
        ok = jnp.all(jnp.concatenate([jnp.asarray(o, float) for o in others]) == i.astype(float))
        mbits = jnp.asarray(action_mask).reshape(-1, NBITS)
        ok = ok & jnp.all((mbits.astype(int) << jnp.arange(NBITS)).sum(-1) == i)
        k = jnp.round(lax.stop_gradient(self.c)).astype(int)
        w, u, z = self.W[i, k], self.U[i, k], self.Z[i, k]
        value = (i + self.B).astype(float) + (w - lax.stop_gradient(w))
        logp = -(i.astype(float) + 1.0) - jnp.where(ok, 0.0, 1.0) + (u - lax.stop_gradient(u))
        entropy = self.c + (z - lax.stop_gradient(z))
        return state, value, logp, entropy


def tag_buffer(E, T, B):
    N = max(E, 1) * T
    ids = jnp.arange(N).reshape((T,) if E == 0 else (E, T))
    f = ids.astype(float)
    obs = {"id": ids, "more": (f[..., None] * jnp.ones(2), {"q": ids})}
    act = (ids, {"x": f[..., None]})
    st = TagPState(h=ids, aux=(f[..., None] * jnp.ones(2), {"z": ids}))
    return RolloutBuffer(observations=obs, actions=act, rewards=f, dones=(ids % 2 == 1), log_probs=-(f + 1.0),
                         values=f, states=st, action_masks=bits_of(ids), returns=f, advantages=float(B) * (f + 1.0))


def train_cases(ck, quick):
    rng = ck.rng
    cases, cj = [], []
    # (num_envs [0 = unbatched buffer of shape (T,)], num_steps, num_batches, num_epochs)
    cfgs = [(2, 6, 4, 3), (3, 5, 4, 2), (1, 7, 2, 3), (0, 9, 4, 2), (4, 4, 1, 3), (2, 8, 16, 2), (3, 7, 5, 4), (2, 5, 3, 1)]
    if not quick:
        cfgs += [(4, 16, 8, 4), (5, 9, 7, 3), (6, 16, 32, 10), (3, 11, 4, 5), (0, 16, 3, 4), (2, 9, 18, 2), (4, 6, 5, 3), (1, 13, 4, 6)]
    nkeys = 12 if quick else 60
    py_seen = set()
    for (E, T, NBAT, EPO) in cfgs:
        Ee = max(E, 1)
        N = Ee * T
        algo = PPO(num_envs=Ee, num_steps=T, num_epochs=EPO, num_batches=NBAT, normalize_advantages=False,
                   clip_value_loss=False, entropy_loss_coefficient=1.0, value_loss_coefficient=1.0)
        # plain SGD so that parameter deltas are sums of per-minibatch gradients
        algo = eqx.tree_at(lambda a: a.optimizer, algo, optax.sgd(1.0), is_leaf=lambda x: isinstance(x, optax.GradientTransformation))
        B = int(algo.batch_size)
        nb = N // B
        K = EPO * nb
        buf = tag_buffer(E, T, B)
        pol0 = TagPolicy(N, K, B)
        opt0 = algo.optimizer.init(eqx.filter(pol0, eqx.is_inexact_array))
        train = eqx.filter_jit(lambda p, o, b, k: algo.train(p, o, b, key=k))
        # distinguishable ordered partitions into nb groups of B (+ remainder)
        log2_outcomes = (math.lgamma(N + 1) - nb * math.lgamma(B + 1) - math.lgamma(N - nb * B + 1)) / math.log(2)
        fresh = nb >= 2 and log2_outcomes >= 40
        for _ in range(nkeys):
            seed = int(rng.integers(0, 2**31 - 1))
            key = jr.key(seed)
            ck.current_case = {"api": "PPO.train", "num_envs": E, "num_steps": T, "num_batches": NBAT, "num_epochs": EPO,
                               "batch_size": B, "seed": seed}
            pol, _, log = train(pol0, opt0, buf, key)
            dZ = np.asarray(pol.Z); dW = -np.asarray(pol.W); dU = np.asarray(pol.U)
            cnt_f = dZ * B; a_f = dW * B; b_f = dU
            cnt = np.rint(cnt_f).astype(np.int64); a = np.rint(a_f).astype(np.int64); b = np.rint(b_f).astype(np.int64)
            clock = float(pol.c)
            tag_exact = bool(np.max(np.abs(cnt_f - cnt)) < 1e-6 and np.max(np.abs(a_f - a)) < 1e-6 and np.max(np.abs(b_f - b)) < 1e-6)
            kl = float(log["approx_kl"])
            visits, aligned = [], []
            for e in range(EPO):
                ve, ae = [], []
                for m in range(nb):
                    k = e * nb + m
                    v, al = [], []
                    for i in range(N):
                        n = int(cnt[i, k])
                        if n < 0:
                            v.append(SENT); al.append(SENT + 1)
                            continue
                        if n == 0:
                            if a[i, k] != 0 or b[i, k] != 0:
                                al.append(SENT)  # gradient without a visit
                            continue
                        v += [i] * n
                        ret_sum = n * (B + i) - int(a[i, k])        # sum of return ids seen with observation i
                        adv_sum = int(b[i, k]) - n                  # sum of advantage ids seen with observation i
                        if ret_sum == n * i and adv_sum == n * i:
                            al += [i] * n
                        elif n == 1 and ret_sum == adv_sum and 0 <= adv_sum:
                            al.append(adv_sum)
                        else:
                            al += [SENT] * n
                    ve.append(v); ae.append(al)
                visits.append(ve); aligned.append(ae)
            keys = jr.split(key, EPO)
            perms = [np.asarray(jr.permutation(keys[e], N)).tolist() for e in range(EPO)]
            cases.append(f"C09Check.Build_ecase {zl(N)} {zl(B)} {zl(EPO)} {zll2(perms)} {zll3(visits)} {zll3(aligned)} {bl(fresh)}")
            j = dict(ck.current_case)
            j.update({"N": N, "minibatches_per_epoch": nb, "oracle_perms[jr.permutation(jr.split(key,E)[i],N)]": perms,
                      "impl_visits[epoch][minibatch](sorted ids)": visits, "impl_adv_return_ids": aligned,
                      "approx_kl": kl, "clock": clock, "fresh_checked": fresh,
                      "note": "TagPolicy + optax.sgd(1.0) through the real PPO.train; see harness/c09_epoch_partition.py"})
            cj.append(j)
            if (not tag_exact or abs(clock - K) > 1e-6) and "tag" not in py_seen:
                py_seen.add("tag")
                ck.violations.append(Violation("correspondence-broken", "C09/train/tag-decoding",
                                               "gradient tags are not integers / clock does not count minibatches (harness assumption broken)", case=j))
            if not abs(kl) < 1e-9 and "kl" not in py_seen:
                py_seen.add("kl")
                ck.violations.append(Violation("impl-violates-property", "C09/train/row-alignment",
                                               "approx_kl is not 0 on the tagging policy: observation/action/state/mask/log-prob of a trained row do not belong to one sample", case=j))
            ck.case_seen(("train", E, T, B, EPO, seed) if (nb >= 2 and EPO >= 2) else None)
            ck.count("train:B|N" if N % B == 0 else "train:B∤N"); ck.count(f"train:fresh_checked={fresh}")
    return cases, cj


def body(ck):
    quick = ck.tier == "quick"
    ck.rule = ("(A) buffers of shape (num_envs in 1..6, num_steps in 1..16) [and (T,) for num_envs=1] with 12 pytree layouts of observations/actions/"
               "policy states/action masks, every leaf tagged with the sample id; batch_size: forced corners (1, N, non-divisors, > N) and random incl. "
               "PPO's N//num_batches; apis flatten_axes+batch_indices+gather, batches (default, explicit (0,1) and swapped (1,0) axes), sample, key=None; a case is non-trivial when "
               "1 < B < N or B does not divide N; distinct by (api, E, T, B, layout).  (B) real PPO.train on a gradient-tagging stub policy with SGD for "
               "several (num_envs, num_steps, num_batches, num_epochs) and random keys; non-trivial when >= 2 minibatches and >= 2 epochs")
    ck.not_proved = ["jr.permutation(key, N) is a permutation of 0..N-1 and jr.choice(replace=False) returns distinct in-range indices "
                     "(PRNG contract: an oracle in the theorems, checked on every generated case by `agree`)",
                     "different epoch keys give different shuffles (checked on every PPO.train case with >= 2^40 distinguishable outcomes)",
                     "jnp.moveaxis/reshape/take semantics (modelled as concat and nth; tied by the id comparison on every case)"]
    ck.assumptions = ["rows of the buffer are identified by integer ids written into every leaf; float leaves hold the id exactly",
                      "PPO.train end-to-end: the optimizer field of the PPO module is replaced by optax.sgd(1.0) (train's batching code is unchanged); "
                      "tags are recovered by rounding to the nearest integer (error < 1e-6 asserted)"]
    if not ck.build_coq() or not ck.compile_props():
        pass
    ck.kernel_link()   # AbstractBuffer.batch_indices regenerated from the source = Batching.batch_indices (coq/link/C09_link.v)
    cases, cj = api_cases(ck, quick)
    ck.log(f"{len(cases)} buffer-api cases generated")
    res = ck.run_coq_cases("C09Check", cases, shard=40)
    ck.classify(res, cj, sig_of=lambda i: "C09/" + cj[i]["api"].split("(")[0].replace("sequential-batches", "batches").replace("sequential", "indices+gather"),
                relation="Batching.batch_indices/gather/flatten2 vs RolloutBuffer.flatten_axes/batch_indices/gather/batches/sample",
                what="minibatch index rows / gathered rows are not a partition into intact, aligned samples")
    # ---- rollouts whose observation / action leaves are NumPy arrays (assembled outside jit, e.g. from Gymnasium data), shape (T,):
    #      every minibatch row must still be one sample with all its fields, whatever the array type of a leaf
    from harness.common import Violation
    rng = ck.rng
    for T, B in ([(12, 4), (10, 3), (7, 7)] if quick else [(12, 4), (10, 3), (7, 7), (16, 5), (9, 2), (20, 6)]):
        ids = np.arange(T)
        f = ids.astype(float)
        buf = RolloutBuffer(observations={"pos": np.stack([f, f + 0.5], axis=-1), "id": ids.copy()}, actions=ids.copy(), rewards=f, dones=(ids % 2 == 1),
                            log_probs=f, values=f, states=None, action_masks=np.stack([ids % 2 == 0, ids % 3 == 0], axis=-1), returns=f, advantages=f)
        seed = int(rng.integers(0, 2 ** 31 - 1))
        ck.current_case = {"api": "numpy-leaves", "num_steps": T, "batch_size": B, "seed": seed}
        flat = buf.flatten_axes()
        rows = np.asarray(flat.batch_indices(B, key=jr.key(seed)))
        got = [flat.gather(jnp.asarray(r)) for r in rows] + list(_unstack(buf.batches(B, key=jr.key(seed))))
        ck.count("numpy_leaf_minibatches", len(got)); ck.evaluations += len(got)
        ck.case_seen(("numpy-leaves", T, B))
        for g in got:
            rid = np.asarray(g.rewards).astype(int)
            cols = {"observations.id": np.asarray(g.observations["id"]), "observations.pos[0]": np.asarray(g.observations["pos"])[..., 0],
                    "actions": np.asarray(g.actions), "log_probs": np.asarray(g.log_probs), "advantages": np.asarray(g.advantages)}
            bad = [nm for nm, c in cols.items() if c.shape != rid.shape or not np.array_equal(c.astype(int), rid)]
            if bad or len(set(rid.tolist())) != len(rid):
                ck.violations.append(Violation("impl-violates-property", "C09/numpy-leaves",
                                               "a minibatch of a rollout with NumPy observation / action leaves is not a set of intact samples: fields "
                                               f"{bad} do not belong to the rows selected for rewards / log-probs / advantages",
                                               case={**ck.current_case, "row_ids_by_rewards": rid.tolist(), **{k: np.asarray(v).tolist() for k, v in cols.items()}}))
                break
    ck.current_case = None
    ecases, ej = train_cases(ck, quick)
    ck.log(f"{len(ecases)} PPO.train cases generated")
    nt = [j for j in ej if j["minibatches_per_epoch"] >= 2 and j["num_epochs"] >= 2 and j["N"] % j["batch_size"] != 0]
    if nt:
        ck.samples = ck.samples[:2] + [jsonable(nt[0])]
    res2 = ck.run_coq_cases("C09Check", ecases, funcs=("eagree", "eholds"), shard=24, case_type="C09Check.ecase")
    if res2 is not None:
        ck.classify({"agree": res2["eagree"], "holds": res2["eholds"]}, ej, sig_of=lambda i: "C09/train",
                    relation="Batching.train_rows (epoch keys jr.split(key, num_epochs), batch_indices of each permutation) vs samples trained on by PPO.train",
                    what="an epoch of PPO.train did not train on floor(N/B)*B distinct samples in intact aligned minibatches, or epochs reuse a shuffle")


if __name__ == "__main__":
    run_main("C09", body)
