"""C02 — environments stay inside their declared spaces with well-typed signals.
Tie: (a) clip()/observation() of the classic-control environments on arbitrary solver outputs (far outside the
bounds, corners, exact bounds) vs Lerax.EnvBounds, compared in Coq; (b) rollouts of the built-in environments x
constructor options x wrapper stacks under random and bound-corner actions: observation_space.contains,
action membership, reward finite float scalar, flags boolean scalars (float32 subprocess)."""
from __future__ import annotations

import numpy as np

from harness.common import bl, listl, ql, run_main, setup_jax

jax = setup_jax(x64=True)
import jax.numpy as jnp  # noqa: E402
import jax.random as jr  # noqa: E402

from harness.builtin_step import report  # noqa: E402


def body(ck):
    from lerax.env.classic_control import Acrobot, ContinuousMountainCar, MountainCar, Pendulum
    ck.rule = ("(a) y drawn from {far outside, just outside, exactly on, inside} the bounds per component, for default and non-default constructor parameters; "
               "(b) all built-in environments of the tier x options x wrappers, 14 (quick) / 40 (thorough) steps alternating sampled and bound-corner actions; "
               "non-trivial = some component of y outside the bounds (a); an episode boundary crossed (b)")
    ck.assumptions = ["jnp.clip / minimum / maximum are exact on floats (compared exactly)"]
    ck.not_proved = ["CartPole position/angle membership between the termination threshold and the declared bound (needs a bound on the ODE flow): explored by rollouts",
                     "finiteness / NaN-freeness of diffrax and MJX outputs; MuJoCo and G1 observation membership; independence from Python-side state: explored by rollouts"]
    ck.build_coq(); ck.compile_props()
    quick = ck.tier == "quick"
    rng = ck.rng
    # goal-directed reachability search (model-predictive shooting towards every finite observation bound), started now in a float32
    # subprocess and collected at the end
    import os
    import subprocess
    import sys
    from harness.common import VERIF
    env_ = dict(os.environ); env_.pop("JAX_ENABLE_X64", None)
    reach = subprocess.Popen([sys.executable, "-m", "harness.sub_c02_reach", "--seed", str(ck.seed)] + ([] if quick else ["--replans", "120", "--candidates", "256", "--max-targets", "16"]),
                             cwd=str(VERIF), env=env_, stdout=subprocess.PIPE, stderr=subprocess.DEVNULL, text=True)
    cases, cj = [], []
    n = 150 if quick else 1500

    def pick(lo, hi):
        w = hi - lo
        c = int(rng.integers(0, 6))
        return [lo - 50 * w - 1, lo - 0.125, lo, hi, hi + 0.125, lo + w * float(rng.integers(0, 65)) / 64][c] if np.isfinite(w) else float(rng.integers(-64, 65)) / 4

    envs_mc = [("MountainCar", MountainCar(), True), ("MountainCar(alt)", MountainCar(min_position=-2.0, max_position=1.0, max_speed=0.125), True),
               ("ContinuousMountainCar", ContinuousMountainCar(), True)]  # since the C17 fix it has the inelastic left wall too
    for i in range(n):
        name, env, wall = envs_mc[i % len(envs_mc)]
        lo, hi, ms = float(env.min_position), float(env.max_position), float(env.max_speed)
        x = float(pick(lo, hi)); v = float(pick(-ms, ms))
        out = np.asarray(env.clip(jnp.asarray([x, v])))
        obs = np.asarray(env.observation(type(env.initial(key=jr.key(0)))(y=jnp.asarray(out), t=jnp.asarray(0.0)), key=jr.key(0)))
        member = bool(env.observation_space.contains(obs))
        lit = f"CMountainCar {bl(wall)} {ql(lo)} {ql(hi)} {ql(ms)} {ql(x)} {ql(v)} {listl(ql(float(t)) for t in obs)}"
        j = {"env": name, "y": [x, v], "impl_clip": out.tolist(), "impl_observation": obs.tolist(), "impl_contains": member}
        cases.append(lit); cj.append(j)
        ck.case_seen((name, x, v) if not (lo <= x <= hi and -ms <= v <= ms) else None, sample=j); ck.count(name)
        if not member:
            from harness.common import Violation
            ck.violations.append(Violation("impl-violates-property", f"C02/clip/{name}", "observation of a clipped state is not in observation_space", case=j))
    trig = [("Acrobot", Acrobot(), 4, 2), ("Pendulum", Pendulum(), 2, 1), ("Pendulum(max_speed=2)", Pendulum(max_speed=2.0), 2, 1)]
    for i in range(n // 2):
        name, env, ntrig, nv = trig[i % len(trig)]
        high = np.asarray(env.observation_space.high, dtype=float)
        angles = [float(rng.integers(-400, 401)) / 16 for _ in range(ntrig // 2)]
        vels = [float(pick(-high[ntrig + k], high[ntrig + k])) for k in range(nv)]
        y = jnp.asarray(angles + vels)
        st = type(env.initial(key=jr.key(0)))(y=env.clip(y), t=jnp.asarray(0.0))
        obs = np.asarray(env.observation(st, key=jr.key(0)))
        lit = f"CTrig {listl(ql(float(b)) for b in high)} {listl(ql(x) for x in vels)} {listl(ql(float(t)) for t in obs)}"
        j = {"env": name, "y": angles + vels, "impl_observation": obs.tolist(), "space_high": high.tolist()}
        cases.append(lit); cj.append(j)
        ck.case_seen((name, tuple(vels)) if any(abs(v) > high[ntrig + k] for k, v in enumerate(vels)) else None); ck.count(name)
    ck.log(f"{len(cases)} clip/observation cases")
    res = ck.run_coq_cases("C02Check", cases, shard=200, preamble="From Lerax Require Import EnvBounds.\nImport C02Check.")
    ck.classify(res, cj, sig_of=lambda i: "C02/clip/" + cj[i]["env"].split("(")[0], relation="EnvBounds clip model vs env.clip/env.observation",
                what="clip()/observation() leaves the declared observation Box")
    report(ck, quick, "c02", "a built-in environment left its declared spaces / emitted an ill-typed signal")
    # ---- collect the reachability search
    import json as _json
    import re as _re
    from harness.common import Violation
    out, _ = reach.communicate(timeout=3000)
    m = _re.search(r"^RESULT (.*)$", out or "", _re.M)
    if not m:
        ck.violations.append(Violation("correspondence-broken", "C02/reach/harness", "the reachability search produced no result", extra={"log": (out or "")[-1500:]}))
    else:
        rr = _json.loads(m.group(1))
        summary = {}
        for name, r in rr["envs"].items():
            summary[name] = {"finite_bounds": r["finite_bounds"], "steps": r["steps"], "skipped": r.get("skipped"),
                             "closest_margins": [t["closest_margin"] for t in r["targets"]]}
            ck.count("reach_search_steps", r["steps"]); ck.evaluations += r["steps"]
            if r["steps"]:
                ck.case_seen(("reach", name))
            if r["error"]:
                ck.violations.append(Violation("impl-violates-property", f"C02/reach/{name}/exception", f"{name} raised during the reachability search: {r['error']}",
                                               case={"env": name}, extra={"traceback": r.get("traceback")}))
            for v in r["violations"]:
                ck.violations.append(Violation("impl-violates-property", f"C02/reach/{name}",
                                               f"{name}: a state reached from a reset by in-space actions has an observation outside the declared observation space "
                                               f"(component {v['component']}, declared {v['direction']} bound {v['declared_bound']})", case={**v, "search": rr["params"]}))
        ck.extra_cov["reachability_search"] = {"method": "model-predictive shooting towards each finite observation bound (a search, not a proof)", "params": rr["params"], "per_env": summary}


if __name__ == "__main__":
    run_main("C02", body)
