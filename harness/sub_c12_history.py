"""C12 / C02: environment functions depend only on their explicit arguments, not on what else happened in the process.
Each probe constructs a built-in environment or wrapper stack and evaluates reset + a few steps + the functional components on
fixed keys and actions.  `--probes i,j,...` evaluates the listed probes IN THAT ORDER in this process and prints one line
RESULT <json> with the raw outputs per probe; the caller compares a probe evaluated alone in a fresh process with the same probe
evaluated after (and before) all the others."""
from __future__ import annotations

import argparse
import json
import warnings

import numpy as np

warnings.filterwarnings("ignore")
from harness.common import setup_jax

jax = setup_jax(x64=False)
import jax.numpy as jnp  # noqa: E402
import jax.random as jr  # noqa: E402


def probes():
    from lerax.env.classic_control import Acrobot, CartPole, ContinuousMountainCar, MountainCar, Pendulum
    from lerax.wrapper import (ClipAction, ClipObservation, ClipReward, FlattenObservation, Identity, RescaleAction, RescaleObservation,
                               TimeLimit, TransformAction, TransformObservation, TransformReward)
    return [
        ("RescaleAction(ContinuousMountainCar)", lambda: RescaleAction(ContinuousMountainCar())),
        ("RescaleAction(Pendulum)", lambda: RescaleAction(Pendulum())),
        ("RescaleAction(Pendulum(max_torque=3))", lambda: RescaleAction(Pendulum(max_torque=3.0))),
        ("RescaleAction(Pendulum, 0, 1)", lambda: RescaleAction(Pendulum(), jnp.array(0.0), jnp.array(1.0))),
        ("RescaleObservation(Pendulum, 0, 1)", lambda: RescaleObservation(Pendulum(), jnp.array(0.0), jnp.array(1.0))),
        ("RescaleObservation(Pendulum(max_speed=4), 0, 1)", lambda: RescaleObservation(Pendulum(max_speed=4.0), jnp.array(0.0), jnp.array(1.0))),
        ("RescaleObservation(Acrobot)", lambda: RescaleObservation(Acrobot())),
        ("ClipAction(Pendulum)", lambda: ClipAction(Pendulum())),
        ("ClipAction(ContinuousMountainCar)", lambda: ClipAction(ContinuousMountainCar())),
        ("ClipObservation(Pendulum)", lambda: ClipObservation(Pendulum())),
        ("TimeLimit(CartPole, 3)", lambda: TimeLimit(CartPole(), 3)),
        ("TimeLimit(CartPole, 2)", lambda: TimeLimit(CartPole(), 2)),
        ("FlattenObservation(CartPole(x_threshold=1))", lambda: FlattenObservation(CartPole(x_threshold=1.0))),
        ("ClipReward(TransformReward(MountainCar))", lambda: ClipReward(TransformReward(MountainCar(), lambda r: 3.0 * r), -2.0, 2.0)),
        ("TransformAction(ContinuousMountainCar)", lambda: TransformAction(ContinuousMountainCar(), lambda a: a / 2, ContinuousMountainCar().action_space)),
        ("Identity(Acrobot)", lambda: Identity(Acrobot())),
        ("CartPole", lambda: CartPole()),
        ("Pendulum(dt=0.1)", lambda: Pendulum(dt=0.1)),
    ]


def flat(x):
    return [np.asarray(l, dtype=np.float64).reshape(-1).tolist() for l in jax.tree.leaves(x)]


def run_probe(ctor, jit):
    import equinox as eqx
    env = ctor()
    wrap = eqx.filter_jit if jit else (lambda f: f)
    out = []
    k0 = jr.key(11)
    state, obs, _ = wrap(lambda k: env.reset(key=k))(k0)
    out.append(flat((obs,)))
    sp = env.action_space
    for t in range(4):
        k = jr.key(100 + t)
        a = sp.sample(key=jr.key(500 + t))
        if hasattr(sp, "low") and t == 1:
            a = jnp.where(jnp.isfinite(sp.high), sp.high, 2.5).astype(a.dtype)
        if hasattr(sp, "low") and t == 2:
            a = jnp.where(jnp.isfinite(sp.low), sp.low, -2.5).astype(a.dtype)
        nxt = wrap(lambda s, a, k: env.transition(s, a, key=k))(state, a, k)
        rew = wrap(lambda s, a, n, k: env.reward(s, a, n, key=k))(state, a, nxt, k)
        ob = wrap(lambda s, k: env.observation(s, key=k))(nxt, k)
        state, obs, r2, term, trunc, _ = wrap(lambda s, a, k: env.step(s, a, key=k))(state, a, k)
        out.append(flat((a, rew, ob, obs, r2, term, trunc)))
    sp_desc = flat((getattr(env.action_space, "low", 0), getattr(env.action_space, "high", 0), getattr(env.observation_space, "low", 0),
                    getattr(env.observation_space, "high", 0)))
    out.append(sp_desc)
    return out


def main():
    ap = argparse.ArgumentParser()
    ap.add_argument("--probes", default="")
    ap.add_argument("--list", action="store_true")
    a = ap.parse_args()
    P = probes()
    if a.list:
        print("RESULT " + json.dumps([n for n, _ in P]))
        return
    res = []
    for tok in [x for x in a.probes.split(",") if x]:
        i = int(tok)
        name, ctor = P[i]
        try:
            res.append({"probe": i, "name": name, "jit": run_probe(ctor, True)})
        except Exception as e:  # noqa: BLE001
            res.append({"probe": i, "name": name, "error": f"{type(e).__name__}: {e}"[:300]})
    print("RESULT " + json.dumps(res))


if __name__ == "__main__":
    main()
