"""C04 — an on-policy rollout is a faithful record of the interaction.
Tie: RolloutBuffer and carried step state returned by the real collect_rollout
(PPO and A2C; scalar and filter_vmap-ed as in `iteration`) on finite MDPs with
tabular policies (stateful, out-of-bounds Box proposals, masks, time limits)
vs Lerax.OnPolicy.collect, compared in Coq."""
from __future__ import annotations

from harness.common import Violation, release_jit, run_main, setup_jax

jax = setup_jax(x64=True)

from harness.rollout_cases import PREAMBLE, gen_rollout_case  # noqa: E402


def real_policy_coherence(ck, quick):
    """The hypothesis `coherent` of C04_ratio_one, checked for the stock MLPActorCriticPolicy: re-evaluating every stored sample
    (observation, stored action, recorded mask, stored policy state) under the unchanged policy reproduces the stored value and
    log-prob, i.e. the first PPO ratio is 1 - with and without action masks, discrete and bounded-Box actions."""
    import equinox as eqx
    import jax.numpy as jnp
    import jax.random as jr
    import numpy as np
    from lerax.algorithm import PPO
    from lerax.callback import CallbackList
    from lerax.policy import MLPActorCriticPolicy
    from harness.stubs import TabEnv, build_stack, random_tab
    cb = CallbackList(callbacks=[])
    rng = ck.rng
    for idx in range(6 if quick else 40):
        kind = ["masked", "unmasked", "box"][idx % 3]
        spec = random_tab(rng, box_obs=False, box_action=(kind == "box"), mask=(kind == "masked"), trunc_rate=0.05, term_rate=0.15)
        env = build_stack(TabEnv(spec), [["TimeLimit", 4]])
        pol = MLPActorCriticPolicy(env=env, key=jr.key(idx), feature_size=4, feature_width=8, feature_depth=1, value_width=8, value_depth=1, action_width=8, action_depth=1)
        N = 1 + idx % 2 * 2; T = 8
        algo = PPO(num_envs=N, num_steps=T, num_epochs=1, num_batches=1)
        ck.current_case = {"policy": "MLPActorCriticPolicy", "kind": kind, "spec": spec, "N": N, "T": T}
        st = algo.reset(env, pol, key=jr.key(100 + idx), callback=cb)
        if N == 1:
            _, buf = eqx.filter_jit(lambda s, k: algo.collect_rollout(env, pol, s, cb, k))(st.step_state, jr.key(200 + idx))
        else:
            _, buf = eqx.filter_jit(lambda s, k: eqx.filter_vmap(algo.collect_rollout, in_axes=(None, None, eqx.if_array(0), None, 0))(env, pol, s, cb, jr.split(k, N)))(st.step_state, jr.key(200 + idx))
            buf = buf.flatten_axes((0, 1))
        _, values, log_probs, _ = jax.vmap(pol.evaluate_action)(buf.states, buf.observations, buf.actions, action_mask=buf.action_masks)
        ratio = np.exp(np.asarray(log_probs) - np.asarray(buf.log_probs))
        masked_steps = 0 if buf.action_masks is None else int(np.sum(~np.asarray(buf.action_masks).all(axis=-1)))
        ck.case_seen(("mlp-coherence", idx, kind) if (kind != "masked" or masked_steps) else None)
        ck.count("real_policy_coherence:" + kind); ck.count("real_policy_masked_steps", masked_steps)
        if not (np.allclose(ratio, 1.0, rtol=1e-6, atol=1e-6) and np.allclose(np.asarray(values), np.asarray(buf.values), rtol=1e-6, atol=1e-6)):
            ck.violations.append(Violation("impl-violates-property", f"C04/MLPActorCriticPolicy/reevaluation-{kind}",
                                           "re-evaluating the stored samples under the unchanged policy does not reproduce the stored value / log-prob (first PPO ratio != 1)",
                                           case={**ck.current_case, "first_ratios": ratio.tolist()[:16], "max_abs_ratio_minus_1": float(np.max(np.abs(ratio - 1.0)))}))
    ck.current_case = None


def body(ck):
    ck.rule = ("random finite MDPs (discrete observations; discrete or bounded-Box actions with out-of-bounds policy proposals; masks; inner truncation) under stacks of "
               "TimeLimit/reward/action wrappers x tabular stateful policies x T in 1..10 x N in 1..4 (N>1 vmapped exactly like iteration()); 40% key-free cases; "
               "non-trivial = at least one done inside a rollout of length >= 2; distinct by (case, N, T, #dones)")
    ck.assumptions = ["stub env/policy draws tabulated per key path (jr.split modelled as paths)", "float64 exact on dyadic tables",
                      "filter_scan / filter_cond / filter_vmap of lerax.utils and equinox behave as scan / cond / map"]
    ck.build_coq(); ck.compile_props()
    ck.kernel_link()   # the on-policy step regenerated from the source = OnPolicy.op_step (coq/link/C04_link.v)
    quick = ck.tier == "quick"
    n = 70 if quick else 700
    cases, cj, metas = [], [], []
    for i in range(n):
        lit, j, meta = gen_rollout_case(ck, ck.rng, i, half_bounded=True)
        cases.append(lit); cj.append(j); metas.append(meta)
        release_jit(i, 25)
    ck.current_case = None
    ck.log(f"{len(cases)} rollout cases")
    res = ck.run_coq_cases("C04Check", cases, shard=20, preamble=PREAMBLE)

    def sig(i):
        m = metas[i]
        return "C04/collect_rollout/" + ("box" if m["box"] else "discrete")
    real_policy_coherence(ck, quick)
    ck.classify(res, cj, sig_of=sig, relation="OnPolicy.collect (on_policy.py:185-217, 340-449) vs collect_rollout",
                what="rollout buffer is not the faithful record of the interaction (stored action / value / log-prob / clipped execution / done / bootstrap / resets / masks)")


if __name__ == "__main__":
    run_main("C04", body)
