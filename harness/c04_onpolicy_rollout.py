"""C04 — an on-policy rollout is a faithful record of the interaction.
Tie: RolloutBuffer and carried step state returned by the real collect_rollout
(PPO and A2C; scalar and filter_vmap-ed as in `iteration`) on finite MDPs with
tabular policies (stateful, out-of-bounds Box proposals, masks, time limits)
vs Lerax.OnPolicy.collect, compared in Coq."""
from __future__ import annotations

from harness.common import Violation, run_main, setup_jax

jax = setup_jax(x64=True)

from harness.rollout_cases import PREAMBLE, gen_rollout_case  # noqa: E402


def body(ck):
    ck.rule = ("random finite MDPs (discrete observations; discrete or bounded-Box actions with out-of-bounds policy proposals; masks; inner truncation) under stacks of "
               "TimeLimit/reward/action wrappers x tabular stateful policies x T in 1..10 x N in 1..4 (N>1 vmapped exactly like iteration()); 40% key-free cases; "
               "non-trivial = at least one done inside a rollout of length >= 2; distinct by (case, N, T, #dones)")
    ck.assumptions = ["stub env/policy draws tabulated per key path (jr.split modelled as paths)", "float64 exact on dyadic tables",
                      "filter_scan / filter_cond / filter_vmap of lerax.utils and equinox behave as scan / cond / map"]
    ck.build_coq(); ck.compile_props()
    quick = ck.tier == "quick"
    n = 70 if quick else 700
    cases, cj, metas = [], [], []
    for i in range(n):
        lit, j, meta = gen_rollout_case(ck, ck.rng, i)
        cases.append(lit); cj.append(j); metas.append(meta)
    ck.current_case = None
    ck.log(f"{len(cases)} rollout cases")
    res = ck.run_coq_cases("C04Check", cases, shard=20, preamble=PREAMBLE)

    def sig(i):
        m = metas[i]
        return "C04/collect_rollout/" + ("box" if m["box"] else "discrete")
    ck.classify(res, cj, sig_of=sig, relation="OnPolicy.collect (on_policy.py:185-217, 340-449) vs collect_rollout",
                what="rollout buffer is not the faithful record of the interaction (stored action / value / log-prob / clipped execution / done / bootstrap / resets / masks)")


if __name__ == "__main__":
    run_main("C04", body)
