"""Runs the real `collect_rollout` (scalar and filter_vmap-ed exactly as
`iteration` does) of PPO / A2C on finite MDPs with tabular policies and a
recording step callback; produces Lerax.C04Check cases."""
from __future__ import annotations

import numpy as np

from harness.common import bl, listl, optl, ql, zl

import equinox as eqx
import jax
import jax.numpy as jnp
import jax.random as jr
from jaxtyping import Array

from lerax.algorithm import A2C, PPO
from lerax.algorithm.on_policy import AbstractOnPolicyStepState
from lerax.callback import AbstractCallbackStepState, AbstractStepCallback

from harness.stubs import (KeyTree, TabEnv, TabPolicy, TabPState, build_stack, canon_state, chain_tab, obs_list, path_lit, ptab_lit,
                           random_ptab, random_stack, random_tab, rawtbl_lit, rebuild_state, subtree, tab_lit, wd_lit)


class RecStepState(AbstractCallbackStepState):
    rew: Array
    done: Array
    keyd: Array
    ptr: Array


class RecCallback(AbstractStepCallback):
    """records, per step, the reward/done flag and the key the callback was handed"""
    T: int = eqx.field(static=True)

    def step_reset(self, ctx, *, key):
        return RecStepState(jnp.zeros((self.T,)), jnp.zeros((self.T,), dtype=bool), jnp.zeros((self.T, 2), dtype=jnp.uint32), jnp.array(0))

    def on_step(self, ctx, *, key):
        s = ctx.state
        i = s.ptr % self.T
        return RecStepState(s.rew.at[i].set(ctx.reward), s.done.at[i].set(ctx.done), s.keyd.at[i].set(jr.key_data(key)), s.ptr + 1)


def est_lit(cnt, s, h):
    return f"(({listl(zl(c) for c in cnt)}, {zl(s)}), {zl(h)})"


def irow_lit(r):
    return (f"(Build_irow {listl(ql(x) for x in r['obs'])} {ql(r['act'])} {ql(r['rew'])} {bl(r['done'])} {ql(r['logp'])} {ql(r['val'])} "
            f"{zl(r['h'])} {optl(r['mask'], lambda m: listl(bl(x) for x in m))} {ql(r['adv'])} {ql(r['ret'])} {ql(r['cb_rew'])} {bl(r['cb_done'])})")


_ALLOW = ["Identity", "TimeLimit", "TimeLimit", "ClipReward", "TransformReward", "TransformAction", "RescaleAction"]


def gen_rollout_case(ck, rng, idx, *, force_vec=None, det=None, Tmax=10, half_bounded=False):
    """half_bounded: a fifth of the Box action spaces get ONE finite bound only (used by the C04 check, whose property is about clipping)"""
    det = bool(rng.random() < 0.4) if det is None else det
    if det and rng.random() < 0.5:
        # key-free chain MDP under a TimeLimit hitting the terminal step: pure truncation / coincidence / pure termination
        K = int(rng.integers(2, 5))
        spec = chain_tab(rng, K, box_action=bool(rng.random() < 0.3))
        stack, asp, osp = [["TimeLimit", int(K + rng.integers(-1, 2))]], list(spec["asp"]), list(spec["osp"])
    else:
        spec = random_tab(rng, box_obs=False, noise=not det, trunc_rate=0.08, term_rate=0.15, half_bounded=half_bounded)
        if det:
            spec["I"] = spec["I"][:1]
            spec["P"] = [[[x[0]] for x in row] for row in spec["P"]]
        stack, asp, osp = random_stack(rng, spec, depth=int(rng.integers(0, 3)), allow=_ALLOW)
    nobs = int(spec["osp"][1])
    pspec = random_ptab(rng, spec, asp, nobs, det=det)
    env = build_stack(TabEnv(spec), stack)
    policy = TabPolicy(pspec, env.action_space, env.observation_space)
    T = int(rng.integers(1, Tmax + 1))
    vec = bool(rng.random() < 0.5) if force_vec is None else force_vec
    N = int(rng.integers(2, 5)) if vec else 1
    gamma = float(rng.choice([0.5, 1.0, 0.75])); lam = float(rng.choice([0.5, 1.0, 0.0]))
    algo_cls = PPO if rng.random() < 0.7 else A2C
    algo = algo_cls(num_envs=N, num_steps=T, gamma=gamma, gae_lambda=lam) if algo_cls is A2C else \
        PPO(num_envs=N, num_steps=T, gamma=gamma, gae_lambda=lam, num_epochs=1, num_batches=1)
    cb = RecCallback(T)
    seed = int(30_000 * (ck.seed + 1) + idx)
    root = jr.key(seed)
    tree = KeyTree([root])
    rootp = ((0, 0),)
    nlim = sum(1 for d in stack if d[0] == "TimeLimit")
    S = len(spec["P"])
    starts = [([int(rng.integers(0, 4)) for _ in range(nlim)], int(rng.integers(0, S)), int(rng.integers(0, pspec["NH"]))) for _ in range(N)]
    ck.current_case = {"spec": spec, "stack": stack, "pspec": pspec, "T": T, "N": N, "seed": seed, "starts": starts}

    def mk_state(cnt, s, h):
        return AbstractOnPolicyStepState(rebuild_state(env, cnt, s), TabPState(jnp.asarray(h, dtype=int)), cb.step_reset(None, key=root))

    paths = []
    if vec:
        states = [mk_state(*st) for st in starts]
        step_state = jax.tree.map(lambda *xs: jnp.stack(xs), *states)
        keys = jr.split(root, N)
        out_state, buf = eqx.filter_jit(lambda ss, ks: eqx.filter_vmap(algo.collect_rollout, in_axes=(None, None, eqx.if_array(0), None, 0))(env, policy, ss, cb, ks))(step_state, keys)
        env_paths = [rootp + ((N, i),) for i in range(N)]
    else:
        out_state, buf = eqx.filter_jit(lambda ss, k: algo.collect_rollout(env, policy, ss, cb, k))(mk_state(*starts[0]), root)
        out_state = jax.tree.map(lambda x: x[None], out_state); buf = jax.tree.map(lambda x: x[None], buf)
        env_paths = [rootp]
    cb_key_ok = True
    for ep in env_paths:
        paths += [ep + ((2, 1),)]
        for t in range(T):
            kp = ep + ((2, 0), (T, t))
            paths += subtree(kp, [9])
    raw_lit, raw_json = rawtbl_lit(tree, paths)
    envs_lit, envs_json = [], []
    n_done = n_trunc_only = n_both = n_oob = 0
    for i in range(N):
        b = jax.tree.map(lambda x: np.asarray(x[i]), buf)
        o = jax.tree.map(lambda x: x[i], out_state)
        rows = []
        cbs = o.callback_state
        for t in range(T):
            mask = None if b.action_masks is None else [bool(x) for x in b.action_masks[t]]
            rows.append({"obs": obs_list(b.observations[t]), "act": float(np.asarray(b.actions[t]).reshape(())), "rew": float(b.rewards[t]),
                         "done": bool(b.dones[t]), "logp": float(b.log_probs[t]), "val": float(b.values[t]), "h": int(b.states.h[t]),
                         "mask": mask, "adv": float(b.advantages[t]), "ret": float(b.returns[t]),
                         "cb_rew": float(cbs.rew[t]), "cb_done": bool(cbs.done[t])})
            want = jr.key_data(tree.key(env_paths[i] + ((2, 0), (T, t), (9, 8))))
            if not np.array_equal(np.asarray(cbs.keyd[t]), np.asarray(want)):
                cb_key_ok = False
            n_done += rows[-1]["done"]
            if asp[0] == "box" and ((asp[2] is not None and rows[-1]["act"] < asp[2]) or (asp[3] is not None and rows[-1]["act"] > asp[3])):
                n_oob += 1
        fc, fs = canon_state(o.env_state)
        fh = int(o.policy_state.h)
        envs_lit.append(f"(Build_envcase {est_lit(*starts[i])} {listl(irow_lit(r) for r in rows)} {est_lit(fc, fs, fh)})")
        envs_json.append({"start[counters,s,h]": starts[i], "rows": rows, "final[counters,s,h]": [fc, fs, fh]})
    lit = (f"Build_case {tab_lit(spec)} {raw_lit} {listl(wd_lit(d) for d in stack)} {ptab_lit(pspec)} {ql(gamma)} {ql(lam)} {T}%nat "
           f"{path_lit(rootp)} {bl(vec)} {bl(det)} {listl(envs_lit)}")
    j = {"algo": algo_cls.__name__, "spec": spec, "stack(outermost first)": stack, "policy": pspec, "gamma": gamma, "lambda": lam, "T": T, "N": N,
         "vmapped": vec, "key_free": det, "root_seed": seed, "raw_draws": raw_json, "envs": envs_json, "callback_keys_match_model_paths": cb_key_ok}
    ck.count(f"N={N}"); ck.count("key_free" if det else "stochastic"); ck.count("dones", n_done); ck.count("stored_actions_out_of_bounds", n_oob)
    ck.count("algo:" + algo_cls.__name__)
    for d in stack:
        ck.count("w:" + d[0])
    ck.case_seen((idx, N, T, n_done) if (n_done >= 1 and T >= 2) else None, sample=j)
    return lit, j, {"cb_key_ok": cb_key_ok, "n_oob": n_oob, "det": det, "vec": vec, "box": asp[0] == "box"}


PREAMBLE = "From Lerax Require Import Env Tab Gae OnPolicy.\nImport C04Check."


def collect_gae_cases(ck, n):
    """C03 end-to-end: (gamma, lambda, last, rows, adv, ret) taken from buffers of real collect_rollout runs.
    The bootstrap value is recomputed by the real policy on the real post-rollout state."""
    out = []
    rng = ck.rng
    for idx in range(n):
        if idx % 20 == 19:
            jax.clear_caches()
        lit, j, meta = gen_rollout_case(ck, rng, 900_000 + idx, force_vec=bool(idx % 2), Tmax=12)
        # rebuild env/policy to evaluate the bootstrap value of the final state
        env = build_stack(TabEnv(j["spec"]), j["stack(outermost first)"])
        pol = TabPolicy(j["policy"], env.action_space, env.observation_space)
        tree = KeyTree([jr.key(j["root_seed"])])
        N = j["N"]
        for i, e in enumerate(j["envs"]):
            ep = ((0, 0),) + (((N, i),) if j["vmapped"] else ())
            fc, fs, fh = e["final[counters,s,h]"]
            obs = env.observation(rebuild_state(env, fc, fs), key=tree.key(ep + ((2, 1),)))
            last = float(pol.value(TabPState(jnp.asarray(fh)), obs)[1])
            # episode ends as an independent step observer saw them (ctx.done of a user callback), NOT the buffer's own dones field:
            # the estimates must be cut where the episodes really ended
            rows = [(r["rew"], r["val"], r["cb_done"]) for r in e["rows"]]
            adv = [r["adv"] for r in e["rows"]]; ret = [r["ret"] for r in e["rows"]]
            jj = {"api": f"collect_rollout ({j['algo']}, env {i} of {N}, vmapped={j['vmapped']})", "gamma": j["gamma"], "lambda": j["lambda"],
                  "last_value": last, "rows[reward,value,done]": rows, "impl_advantages": adv, "impl_returns": ret, "rollout": j}
            out.append(((j["gamma"], j["lambda"], last, rows, adv, ret), jj))
            ck.count("end_to_end_streams")
    return out
