"""C11 — training is reproducible, pure, and unaffected by observers.
Tie / search: metamorphic runs of the real learn() of PPO, A2C, REINFORCE, DQN, SAC: same inputs twice ->
bit-identical leaves; different keys -> different leaves; {no callback, LoggingCallback+recording backend,
ProgressBarCallback, list of both} -> bit-identical leaves; the input policy's leaves untouched; and the keys
handed to step callbacks by the real collect_rollout are the model's callback key paths."""
from __future__ import annotations

import numpy as np

from harness.common import Violation, run_main, setup_jax

jax = setup_jax(x64=False)
import equinox as eqx  # noqa: E402
import jax.numpy as jnp  # noqa: E402
import jax.random as jr  # noqa: E402


import contextlib
import os
import sys


@contextlib.contextmanager
def quiet_fd():
    """silence the progress bar (it writes to fd 1/2) while an observed run executes"""
    sys.stdout.flush(); sys.stderr.flush()
    saved = os.dup(1), os.dup(2)
    null = os.open(os.devnull, os.O_WRONLY)
    try:
        os.dup2(null, 1); os.dup2(null, 2)
        yield
    finally:
        sys.stdout.flush(); sys.stderr.flush()
        os.dup2(saved[0], 1); os.dup2(saved[1], 2)
        os.close(null); os.close(saved[0]); os.close(saved[1])


def leaves(t):
    return [np.asarray(x).copy() for x in jax.tree.leaves(eqx.filter(t, eqx.is_array))]


def same(a, b):
    return len(a) == len(b) and all(x.shape == y.shape and np.array_equal(x, y, equal_nan=True) for x, y in zip(a, b))


def body(ck):
    from lerax.algorithm import A2C, DQN, PPO, REINFORCE, SAC
    from lerax.callback import LoggingCallback, ProgressBarCallback
    from lerax.callback.logging import AbstractLoggingBackend
    from lerax.env.classic_control import CartPole, Pendulum
    from lerax.policy import MLPActorCriticPolicy, MLPQPolicy
    from lerax.policy.sac import MLPSACPolicy
    from lerax.wrapper import TimeLimit

    from lerax.callback import AbstractCallbackState, AbstractIterationCallback, AbstractStepCallback, AbstractCallbackStepState

    class CountState(AbstractCallbackState):
        n: jax.Array

    class IterCounter(AbstractIterationCallback):
        """a user-defined observer with iteration-level state (an array that it updates every iteration)"""
        def reset(self, ctx, *, key):
            return CountState(jnp.zeros((), dtype=int))

        def on_iteration(self, ctx, *, key):
            return CountState(ctx.state.n + 1 + (jr.randint(key, (), 0, 2) * 0))

    class StepSumState(AbstractCallbackStepState):
        total: jax.Array

    class StepSummer(AbstractStepCallback):
        """a user-defined observer with per-environment step state"""
        def step_reset(self, ctx, *, key):
            return StepSumState(jnp.zeros(()))

        def on_step(self, ctx, *, key):
            return StepSumState(ctx.state.total + ctx.reward + jr.uniform(key, ()) * 0.0)

    class Rec(AbstractLoggingBackend):
        rows: list = eqx.field(static=True)

        def __init__(self): self.rows = []
        def open(self, name): pass
        def log_scalars(self, scalars, step): self.rows.append(int(step))
        def log_hparams(self, h): pass
        def log_video(self, *a, **k): pass
        def close(self): pass

    ck.rule = ("for each algorithm (PPO, A2C, REINFORCE, DQN, SAC) on a real environment with small real networks: learn() with key k twice, with key k', and with each observer set; "
               "a run is one evaluation; non-trivial = the trained policy differs from the input policy (training really happened)")
    ck.assumptions = ["bitwise comparison of all array leaves of the returned policy"]
    ck.not_proved = ["bit-reproducibility of XLA on this machine and 'different keys yield different runs' are runtime / statistical facts: observed, not proved",
                     "that collect_rollout/train never read callback state is the architecture the theorem assumes (the core functions do not take it as input); observed by the metamorphic runs"]
    ck.build_coq(); ck.compile_props()
    ck.kernel_link()   # iteration() / learn() / reset() of the on-policy learners regenerated from the source = Observers skeleton (coq/link/C11_link.v)
    quick = ck.tier == "quick"
    # the same training in fresh interpreter processes (string hashing differs per process): started now, collected at the end
    import subprocess
    from harness.common import VERIF
    procs = []
    for pname in ("DQN", "SAC", "PPO"):
        for hs in (["1", "2", "3"] if quick else ["1", "2", "3", "4", "5", "random"]):
            env_ = dict(os.environ); env_["PYTHONHASHSEED"] = hs; env_.pop("JAX_ENABLE_X64", None)
            procs.append((pname, hs, subprocess.Popen([sys.executable, "-m", "harness.sub_c11_process", "--algo", pname, "--seed", str(ck.seed)], cwd=str(VERIF), env=env_,
                                                      stdout=subprocess.PIPE, stderr=subprocess.STDOUT, text=True)))
    real_stdout = sys.stdout
    # the progress bar (rich) keeps writing to sys.stdout from its refresh thread: silence everything but the check's own lines
    sys.stdout = sys.stderr = open(os.devnull, "w")
    env = TimeLimit(CartPole(), 10); penv = TimeLimit(Pendulum(), 10)
    ac = lambda k: MLPActorCriticPolicy(env=env, key=k, feature_size=4, feature_width=8, feature_depth=1, value_width=8, value_depth=1, action_width=8, action_depth=1)
    algos = [
        ("PPO", lambda: PPO(num_envs=2, num_steps=8, num_epochs=2, num_batches=2), env, ac, 48),
        ("DQN", lambda: DQN(buffer_size=64, learning_starts=8, num_envs=2, num_steps=2, batch_size=4, target_update_interval=2), env, lambda k: MLPQPolicy(env=env, key=k, width_size=8, depth=1), 24),
        ("SAC", lambda: SAC(buffer_size=64, learning_starts=8, num_envs=2, num_steps=1, batch_size=4, q_width_size=8, q_depth=1), penv, lambda k: MLPSACPolicy(env=penv, key=k, feature_size=8, width_size=8, depth=1), 12),
        ("A2C", lambda: A2C(num_envs=2, num_steps=8), env, ac, 48),
        ("REINFORCE", lambda: REINFORCE(num_envs=2, num_steps=8), env, ac, 48),
    ]
    # a foreign (Gymnasium) environment behind the adapter: the SAME adapter object is trained on repeatedly and used in between, so
    # any state the adapter or the wrapped environment keeps from earlier use would leak into the next training
    try:
        import gymnasium
        from lerax.compatibility.gym import GymToLeraxEnv
        genv = GymToLeraxEnv(gymnasium.make("CartPole-v1"))
        gac = lambda k: MLPActorCriticPolicy(env=genv, key=k, feature_size=4, feature_width=8, feature_depth=1, value_width=8, value_depth=1, action_width=8, action_depth=1)
        algos.insert(1, ("PPO/GymToLeraxEnv", lambda: PPO(num_envs=1, num_steps=16, num_epochs=1, num_batches=2), genv, gac, 48))
    except Exception as e:  # noqa: BLE001
        ck.notes.append(f"Gymnasium adapter not exercised: {type(e).__name__}: {e}")
    seed = ck.seed
    for name, mk, e, mkpol, total in algos:
        algo = mk()
        pol = mkpol(jr.key(seed + 1))
        before = leaves(pol)
        key = jr.key(seed + 2)
        ck.current_case = {"algo": name, "total_timesteps": total, "seed": seed}
        base = leaves(algo.learn(e, pol, total, key=key))
        ck.case_seen((name, "base") if not same(base, before) else None, sample={"algo": name, "total_timesteps": total, "num_leaves": len(base)})
        if "Gym" in name:
            e.reset(key=jr.key(seed + 77))      # unrelated use of the same adapter object between the two trainings
        again = leaves(algo.learn(e, pol, total, key=key))
        ck.case_seen((name, "again")); ck.count("runs:" + name, 2)
        if not same(base, again):
            ck.violations.append(Violation("impl-violates-property", f"C11/{name}/not-reproducible", "two learn() runs with identical inputs returned different parameters", case=ck.current_case))
        if not same(before, leaves(pol)):
            ck.violations.append(Violation("impl-violates-property", f"C11/{name}/input-policy-modified", "learn() modified the policy passed in", case=ck.current_case))
        other = leaves(algo.learn(e, pol, total, key=jr.key(seed + 3)))
        ck.case_seen((name, "otherkey")); ck.count("runs:" + name)
        if same(base, other):
            ck.violations.append(Violation("impl-violates-property", f"C11/{name}/key-ignored", "learn() with a different key returned identical parameters", case=ck.current_case))
        observer_sets = [("logging", lambda: LoggingCallback(Rec(), name="verif")), ("progress", lambda: ProgressBarCallback(total_timesteps=total) if True else None),
                         ("list", lambda: [LoggingCallback(Rec(), name="verif"), ProgressBarCallback(total_timesteps=total)]),
                         ("user-iteration-state", lambda: IterCounter()), ("user-step-state", lambda: StepSummer()),
                         ("list+user", lambda: [LoggingCallback(Rec(), name="verif"), IterCounter(), StepSummer()])]
        if "Gym" in name:
            observer_sets = [observer_sets[0]]
        elif quick and name in ("A2C", "REINFORCE"):
            observer_sets = [observer_sets[0], observer_sets[3]]
        elif quick:
            observer_sets = [observer_sets[0], observer_sets[1], observer_sets[3], observer_sets[5]]
        for oname, mkcb in observer_sets:
            with quiet_fd():
                cb = mkcb()
            with quiet_fd():
                out = leaves(algo.learn(e, pol, total, key=key, callback=cb))
                jax.effects_barrier()
            ck.case_seen((name, oname)); ck.count("runs:" + name); ck.count("observer:" + oname)
            if not same(base, out):
                ck.violations.append(Violation("impl-violates-property", f"C11/{name}/observer-{oname}", f"attaching the observer set '{oname}' changed the trained policy", case={**ck.current_case, "observer": oname}))
    ck.current_case = None
    import json as _json
    import re as _re
    by_algo = {}
    for pname, hs, p in procs:
        out, _ = p.communicate(timeout=1500)
        m = _re.search(r"^RESULT (.*)$", out or "", _re.M)
        if not m:
            ck.violations.append(Violation("correspondence-broken", "C11/process/harness", f"{pname} run in a fresh process (PYTHONHASHSEED={hs}) produced no result",
                                           extra={"log": (out or "")[-1500:]}))
            continue
        by_algo.setdefault(pname, []).append(_json.loads(m.group(1)))
        ck.count("runs_in_fresh_processes:" + pname)
    for pname, rs in by_algo.items():
        ck.case_seen((pname, "fresh-processes") if all(r["trained"] for r in rs) else None)
        if len({r["digest"] for r in rs}) > 1:
            ck.violations.append(Violation("impl-violates-property", f"C11/{pname}/not-reproducible-across-processes",
                                           "the same learn() call (same environment, initial policy, hyper-parameters, key) returned different parameters in different interpreter "
                                           "processes (PYTHONHASHSEED varied): training depends on per-process state such as string hashing", case={"algo": pname, "runs": rs}))
    # callback keys are the model's callback key paths (x64 subprocess not needed: keys are integers)
    from harness.rollout_cases import gen_rollout_case
    bad = 0
    for i in range(10 if quick else 60):
        lit, j, meta = gen_rollout_case(ck, ck.rng, 800_000 + i)
        if not meta["cb_key_ok"]:
            bad += 1
            ck.violations.append(Violation("impl-violates-property", "C11/callback-key", "a step callback was handed a key that is not the dedicated callback key (split index 8 of 9) of its step", case=j))
            break
        ck.count("callback_key_checks", j["T"] * j["N"])


if __name__ == "__main__":
    run_main("C11", body)
