"""Stub environments and policies: real subclasses of lerax's public abstract
classes whose behaviour is given by tables, so that the Coq model
(Lerax.Tab) can compute the same thing exactly.  Every random choice is ONE
`raw(key) = jr.randint(key, (), 0, 2**20)` on the key the component is handed.
"""
from __future__ import annotations

from typing import Any, ClassVar

import equinox as eqx
import jax
import jax.numpy as jnp
import jax.random as jr
import numpy as np
from jaxtyping import Array

from lerax.env import AbstractEnv, AbstractEnvState
from lerax.space import Box, Discrete

from harness.common import bl, listl, ql, zl, optl

RAW_MAX = 2**20


def raw(key):
    return jr.randint(key, (), 0, RAW_MAX)


# ----------------------------------------------------------------------------
# key paths
# ----------------------------------------------------------------------------
class KeyTree:
    """roots[i] is an explicit PRNG key; a path is ((0,i),(n,j),...) meaning
    jr.split(...jr.split(roots[i], n)[j]...)."""

    def __init__(self, roots):
        self.roots = list(roots)
        self._memo = {}

    def key(self, path):
        path = tuple(path)
        if path in self._memo:
            return self._memo[path]
        if len(path) == 1:
            assert path[0][0] == 0
            k = self.roots[path[0][1]]
        else:
            n, i = path[-1]
            k = jr.split(self.key(path[:-1]), n)[i]
        self._memo[path] = k
        return k

    def raw(self, path):
        return int(raw(self.key(path)))


def path_lit(path):
    return listl(f"({n}%nat, {i}%nat)" for n, i in path)


def rawtbl_lit(tree: KeyTree, paths):
    seen = []
    for p in paths:
        p = tuple(p)
        if p not in seen:
            seen.append(p)
    # one batched evaluation
    keys = jnp.stack([jr.key_data(tree.key(p)) for p in seen])
    vals = np.asarray(jax.vmap(lambda kd: raw(jr.wrap_key_data(kd)))(keys))
    return listl(f"({path_lit(p)}, {zl(int(v))})" for p, v in zip(seen, vals)), {str(p): int(v) for p, v in zip(seen, vals)}


def subtree(root, arities):
    """all paths obtained from `root` by successive splits of the given arities
    e.g. subtree(p, [4]) = p, p+(4,0..3)"""
    out = [tuple(root)]
    frontier = [tuple(root)]
    for n in arities:
        nxt = []
        for p in frontier:
            for i in range(n):
                nxt.append(p + ((n, i),))
        out += nxt
        frontier = nxt
    return out


# ----------------------------------------------------------------------------
# tabular environment
# ----------------------------------------------------------------------------
class TabState(AbstractEnvState):
    s: Array


class TabEnv(AbstractEnv):
    name: ClassVar[str] = "TabEnv"
    action_space: Any
    observation_space: Any
    P: Array  # [S,A,K] int
    R: Array  # [S,A,S] float
    RA: Array  # scalar float
    RN: Array  # [NR] float
    T: Array  # [S,KT] bool
    TR: Array  # [S] bool
    I: Array  # [M] int
    O: Array  # [S,KO] float (box obs) or int (discrete obs)
    MK: Array | None  # [S,A] bool
    box_action: bool = eqx.field(static=True)
    box_obs: bool = eqx.field(static=True)

    def __init__(self, spec: dict):
        self.P = jnp.asarray(spec["P"], dtype=int)
        self.R = jnp.asarray(spec["R"], dtype=float)
        self.RA = jnp.asarray(spec["RA"], dtype=float)
        self.RN = jnp.asarray(spec["RN"], dtype=float)
        self.T = jnp.asarray(spec["T"], dtype=bool)
        self.TR = jnp.asarray(spec["TR"], dtype=bool)
        self.I = jnp.asarray(spec["I"], dtype=int)
        self.box_action = spec["asp"][0] == "box"
        self.box_obs = spec["osp"][0] == "box"
        self.O = jnp.asarray(spec["O"], dtype=float if self.box_obs else int)
        self.MK = None if spec.get("MK") is None else jnp.asarray(spec["MK"], dtype=bool)
        self.action_space = mk_space(spec["asp"])
        self.observation_space = mk_space(spec["osp"])

    # -- helpers
    def aidx(self, action):
        A = self.P.shape[1]
        if self.box_action:
            lo, hi = self.action_space.low.reshape(()), self.action_space.high.reshape(())
            a = jnp.asarray(action, dtype=float).reshape(())
            fl, fh = jnp.isfinite(lo), jnp.isfinite(hi)
            # both bounds finite: A equal cells; one finite bound (half-bounded box): unit cells counted from that bound
            rawi = jnp.where(fl & fh, (a - lo) * A / (hi - lo), jnp.where(fl, a - lo, jnp.where(fh, hi - a, 0.0)))
            return jnp.clip(jnp.floor(rawi), 0, A - 1).astype(int)
        return jnp.asarray(action, dtype=int).reshape(())

    def aval(self, action):
        return jnp.asarray(action, dtype=float).reshape(())

    # -- functional API
    def initial(self, *, key):
        return TabState(self.I[raw(key) % self.I.shape[0]])

    def action_mask(self, state, *, key):
        return None if self.MK is None else self.MK[state.s]

    def transition(self, state, action, *, key):
        return TabState(self.P[state.s, self.aidx(action), raw(key) % self.P.shape[2]])

    def observation(self, state, *, key):
        o = self.O[state.s, raw(key) % self.O.shape[1]]
        if self.box_obs and self.observation_space.shape == (1,):
            return o.reshape((1,))
        return o

    def reward(self, state, action, next_state, *, key):
        return self.R[state.s, self.aidx(action), next_state.s] + self.RA * self.aval(action) + self.RN[raw(key) % self.RN.shape[0]]

    def terminal(self, state, *, key):
        return self.T[state.s, raw(key) % self.T.shape[1]]

    def truncate(self, state):
        return self.TR[state.s]

    def state_info(self, state):
        return {"x": jnp.asarray(state.s, dtype=float)}

    def transition_info(self, state, action, next_state):
        return {"x": self.R[state.s, self.aidx(action), next_state.s] + (self.RA + 1.0) * self.aval(action)}

    def default_renderer(self):
        raise NotImplementedError

    def render(self, state, renderer):
        raise NotImplementedError


def mk_space(d):
    if d[0] == "disc":
        return Discrete(int(d[1]))
    _, vec, lo, hi = d
    lo = -jnp.inf if lo is None else lo
    hi = jnp.inf if hi is None else hi
    return Box(lo, hi, shape=(1,) if vec else ())


def xb_lit(x, sign):
    if x is None:
        return "NInf" if sign < 0 else "PInf"
    return f"(Fin {ql(x)})"


def sp_lit(d):
    if d[0] == "disc":
        return f"(SpDisc {zl(d[1])})"
    _, vec, lo, hi = d
    return f"(SpBox {bl(vec)} {xb_lit(lo, -1)} {xb_lit(hi, 1)})"


def space_desc(space):
    """describe a real lerax space in the vocabulary of Lerax.Env.sp (scalar boxes only)"""
    if isinstance(space, Discrete):
        return ["disc", int(space.n)]
    if isinstance(space, Box):
        shp = tuple(space.shape)
        if shp not in ((), (1,)):
            return ["other", repr(space)]
        lo = float(np.asarray(space.low).reshape(())); hi = float(np.asarray(space.high).reshape(()))
        if lo != lo or hi != hi:
            return ["other", "nan-bounds"]
        return ["box", shp == (1,), None if lo == -np.inf else lo, None if hi == np.inf else hi]
    return ["other", repr(space)]


def tab_lit(spec):
    f = lambda rows, lit: listl(listl(listl(lit(x) for x in r) for r in m) for m in rows)
    g = lambda m, lit: listl(listl(lit(x) for x in r) for r in m)
    mk = "None" if spec.get("MK") is None else f"(Some {g(spec['MK'], bl)})"
    return (f"(Build_tab {f(spec['P'], zl)} {f(spec['R'], ql)} {ql(spec['RA'])} {listl(ql(x) for x in spec['RN'])} "
            f"{g(spec['T'], bl)} {listl(bl(x) for x in spec['TR'])} {listl(zl(x) for x in spec['I'])} {g(spec['O'], ql)} "
            f"{mk} {zl(len(spec['P'][0]))} {sp_lit(spec['asp'])} {sp_lit(spec['osp'])})")


def random_tab(rng, *, box_action=None, box_obs=None, mask=None, nS=None, trunc_rate=0.1, term_rate=0.2, noise=True, half_bounded=False):
    S = int(nS or rng.integers(2, 7))
    A = int(rng.integers(2, 5))
    K = int(rng.integers(1, 4))
    box_action = bool(rng.random() < 0.4) if box_action is None else box_action
    box_obs = bool(rng.random() < 0.5) if box_obs is None else box_obs
    mask = bool(rng.random() < 0.3) if mask is None else mask
    dy = lambda lo, hi, den: float(rng.integers(lo, hi + 1)) / den
    spec = {
        "P": rng.integers(0, S, size=(S, A, K)).tolist(),
        "R": [[[dy(-8, 8, 4) for _ in range(S)] for _ in range(A)] for _ in range(S)],
        "RA": dy(-2, 2, 2) if box_action else float(rng.integers(-1, 2)),
        "RN": [0.0, dy(-2, 2, 4)] if noise and rng.random() < 0.5 else [0.0],
        "T": [[bool(rng.random() < term_rate) for _ in range(int(rng.integers(1, 3)) if noise else 1)] for _ in range(S)],
        "TR": [bool(rng.random() < trunc_rate) for _ in range(S)],
        "I": rng.integers(0, S, size=int(rng.integers(1, 4))).tolist(),
        "MK": None,
    }
    KT = max(len(r) for r in spec["T"])
    spec["T"] = [r + [r[0]] * (KT - len(r)) for r in spec["T"]]
    KO = int(rng.integers(1, 3)) if noise else 1
    if box_action:
        lo = dy(-4, 2, 2)
        width = float(rng.choice([1.0, 2.0, 4.0]))
        spec["asp"] = ["box", bool(rng.random() < 0.3), lo, lo + width]
        # a fifth of the Box action spaces have ONE finite bound only (e.g. [0, inf)): clipping must still apply to that bound
        r = rng.random()
        if half_bounded and r < 0.1:
            spec["asp"][3] = None
        elif half_bounded and r < 0.2:
            spec["asp"][2] = None
    else:
        spec["asp"] = ["disc", A]
    if box_obs:
        lo = dy(-8, 0, 2)
        hi = lo + float(rng.choice([2.0, 4.0, 8.0]))
        # some observations deliberately outside [lo,hi] so that ClipObservation is observable
        spec["O"] = [[dy(int(lo * 4) - 4, int(hi * 4) + 4, 4) for _ in range(KO)] for _ in range(S)]
        spec["osp"] = ["box", bool(rng.random() < 0.3), lo, hi]
    else:
        NO = S + int(rng.integers(0, 3))
        spec["O"] = [[int(rng.integers(0, NO)) for _ in range(KO)] for _ in range(S)]
        spec["osp"] = ["disc", NO]
    if mask and not box_action:
        mk = (rng.random(size=(S, A)) < 0.6)
        for s in range(S):
            if not mk[s].any():
                mk[s, int(rng.integers(0, A))] = True
        spec["MK"] = mk.tolist()
    return spec


def chain_tab(rng, K, box_action=False):
    """deterministic chain 0 -> 1 -> ... -> K (terminal), initial state 0: under TimeLimit(n) an episode ends by
    pure truncation (n < K), by termination AND truncation on the same step (n == K) or by pure termination (n > K)"""
    A = 2
    dy = lambda lo, hi, den: float(rng.integers(lo, hi + 1)) / den
    S = K + 1
    spec = {"P": [[[min(s + 1, K)] for _ in range(A)] for s in range(S)],
            "R": [[[dy(-8, 8, 4) for _ in range(S)] for _ in range(A)] for _ in range(S)],
            "RA": 0.5 if box_action else 1.0, "RN": [0.0],
            "T": [[s == K] for s in range(S)], "TR": [False] * S, "I": [0], "MK": None,
            "O": [[s] for s in range(S)], "osp": ["disc", S]}
    spec["asp"] = ["box", False, -1.0, 1.0] if box_action else ["disc", A]
    return spec


# ----------------------------------------------------------------------------
# wrapper stacks
# ----------------------------------------------------------------------------
def build_stack(env, stack):
    """stack: list of descriptors outermost first, e.g. ["TimeLimit", 3]; returns the wrapped env"""
    import lerax.wrapper as W

    for d in reversed(stack):
        kind = d[0]
        if kind == "Identity":
            env = W.Identity(env)
        elif kind == "TimeLimit":
            env = W.TimeLimit(env, int(d[1]))
        elif kind == "ClipAction":
            env = W.ClipAction(env)
        elif kind == "RescaleAction":
            env = W.RescaleAction(env, jnp.asarray(d[1]), jnp.asarray(d[2]))
        elif kind == "TransformAction":
            c, dd = d[1], d[2]
            if isinstance(env.action_space, Discrete):
                env = W.TransformAction(env, lambda a, c=int(c), dd=int(dd): c * a + dd, env.action_space)
            else:
                env = W.TransformAction(env, lambda a, c=c, dd=dd: c * a + dd, env.action_space)
        elif kind == "ClipObservation":
            env = W.ClipObservation(env)
        elif kind == "RescaleObservation":
            env = W.RescaleObservation(env, jnp.asarray(d[1]), jnp.asarray(d[2]))
        elif kind == "FlattenObservation":
            env = W.FlattenObservation(env)
        elif kind == "TransformObservation":
            c, dd = d[1], d[2]
            shp = () if isinstance(env.observation_space, Discrete) else env.observation_space.shape
            env = W.TransformObservation(env, lambda o, c=c, dd=dd: c * jnp.asarray(o, dtype=float) + dd, Box(-jnp.inf, jnp.inf, shape=shp))
        elif kind == "ClipReward":
            env = W.ClipReward(env, d[1], d[2])
        elif kind == "TransformReward":
            c, dd = d[1], d[2]
            env = W.TransformReward(env, lambda r, c=c, dd=dd: c * r + dd)
        else:
            raise KeyError(kind)
    return env


def wd_lit(d):
    k = d[0]
    m = {
        "Identity": lambda: "DIdentity",
        "TimeLimit": lambda: f"(DTimeLimit {zl(d[1])})",
        "ClipAction": lambda: "DClipAction",
        "RescaleAction": lambda: f"(DRescaleAction {ql(d[1])} {ql(d[2])})",
        "TransformAction": lambda: f"(DTransformAction {ql(d[1])} {ql(d[2])})",
        "ClipObservation": lambda: "DClipObs",
        "RescaleObservation": lambda: f"(DRescaleObs {ql(d[1])} {ql(d[2])})",
        "FlattenObservation": lambda: "DFlattenObs",
        "TransformObservation": lambda: f"(DTransformObs {ql(d[1])} {ql(d[2])})",
        "ClipReward": lambda: f"(DClipReward {ql(d[1])} {ql(d[2])})",
        "TransformReward": lambda: f"(DTransformReward {ql(d[1])} {ql(d[2])})",
    }
    return m[k]()


def random_stack(rng, spec, depth=None, allow=None):
    """random well-formed wrapper stack (outermost first) over a TabEnv spec.
    Tracks the action/observation space kinds so that only constructible,
    exactly-computable layers are generated."""
    depth = int(rng.integers(0, 5)) if depth is None else depth
    asp = list(spec["asp"]); osp = list(spec["osp"])
    layers = []  # innermost first
    for _ in range(depth):
        opts = ["Identity", "TimeLimit", "TimeLimit", "ClipReward", "TransformReward", "FlattenObservation"]
        if asp[0] == "box":
            opts += ["ClipAction", "TransformAction"]
            if asp[2] is not None and asp[3] is not None:
                opts += ["RescaleAction", "RescaleAction"]
        else:
            opts += ["TransformAction"]
        if osp[0] == "box":
            opts += ["ClipObservation", "TransformObservation"]
            if osp[2] is not None and osp[3] is not None:
                opts += ["RescaleObservation"]
        else:
            opts += ["TransformObservation"]
        if allow is not None:
            opts = [o for o in opts if o in allow] or ["Identity"]
        k = str(rng.choice(opts))
        if k == "TimeLimit":
            layers.append([k, int(rng.integers(1, 6))])
        elif k == "RescaleAction":
            mn = float(rng.integers(-4, 3)) / 2; w = float(rng.choice([1.0, 2.0, 4.0]))
            layers.append([k, mn, mn + w]); asp = ["box", asp[1], mn, mn + w]
        elif k == "ClipAction":
            layers.append([k]); asp = ["box", asp[1], None, None]
        elif k == "TransformAction":
            if asp[0] == "disc":
                layers.append([k, -1, int(asp[1]) - 1] if rng.random() < 0.7 else [k, 1, 0])
            else:
                layers.append([k, float(rng.choice([1.0, -1.0, 0.5, 2.0])), float(rng.integers(-2, 3)) / 2])
        elif k == "RescaleObservation":
            mn = float(rng.integers(-4, 3)) / 2; w = float(rng.choice([1.0, 2.0, 4.0]))
            layers.append([k, mn, mn + w]); osp = ["box", osp[1], mn, mn + w]
        elif k == "ClipObservation":
            layers.append([k])
        elif k == "FlattenObservation":
            layers.append([k]); osp = ["box", True, None, None]
        elif k == "TransformObservation":
            layers.append([k, float(rng.choice([1.0, -1.0, 0.5, 2.0])), float(rng.integers(-2, 3)) / 2])
            osp = ["box", osp[1] if osp[0] == "box" else False, None, None]
        elif k == "ClipReward":
            lo = float(rng.integers(-6, 1)) / 4
            layers.append([k, lo, lo + float(rng.integers(1, 8)) / 4])
        elif k == "TransformReward":
            layers.append([k, float(rng.choice([1.0, -1.0, 0.5, 2.0])), float(rng.integers(-2, 3)) / 2])
        else:
            layers.append([k])
    return list(reversed(layers)), asp, osp


def canon_state(state):
    """wrapped state -> (TimeLimit counters outermost first, inner s)"""
    counters = []
    st = state
    while hasattr(st, "env_state"):
        if hasattr(st, "step_count"):
            counters.append(int(st.step_count))
        st = st.env_state
    return counters, int(st.s)


def rebuild_state(env, counters, s):
    """inverse of canon_state for a wrapped env built by build_stack"""
    import lerax.wrapper as W
    from lerax.wrapper.misc import IdentityState, TimeLimitState
    from lerax.wrapper.transform_action import TransformActionState
    from lerax.wrapper.transform_observation import PureObservationState
    from lerax.wrapper.transform_reward import PureTransformRewardState

    layers = []
    e = env
    while hasattr(e, "env"):
        layers.append(e)
        e = e.env
    st = TabState(jnp.asarray(s, dtype=int))
    cs = list(counters)
    for layer in reversed(layers):
        if isinstance(layer, W.TimeLimit):
            st = TimeLimitState(step_count=cs.pop(), env_state=st)
        elif isinstance(layer, W.Identity):
            st = IdentityState(st)
        elif isinstance(layer, (W.TransformAction, W.ClipAction, W.RescaleAction)):
            st = TransformActionState(st)
        elif isinstance(layer, (W.TransformObservation, W.ClipObservation, W.RescaleObservation, W.FlattenObservation)):
            st = PureObservationState(st)
        elif isinstance(layer, (W.TransformReward, W.ClipReward)):
            st = PureTransformRewardState(st)
        else:
            raise TypeError(type(layer))
    return st


def obs_list(o):
    return [float(x) for x in np.asarray(o, dtype=float).ravel()]


# ----------------------------------------------------------------------------
# tabular actor-critic policy
# ----------------------------------------------------------------------------
from lerax.policy import AbstractActorCriticPolicy, AbstractPolicyState  # noqa: E402


class TabPState(AbstractPolicyState):
    h: Array


class TabPolicy(AbstractActorCriticPolicy):
    name: ClassVar[str] = "TabPolicy"
    action_space: Any
    observation_space: Any
    ACT: Array  # [NO,NH,KA] candidate actions
    V: Array  # [NO,NH]
    LP: Array  # [NO,NA]
    MU: Array  # [NO]
    ENT: Array  # [NO] entropy reported by evaluate_action
    box: bool = eqx.field(static=True)
    NH: int = eqx.field(static=True)
    NHR: int = eqx.field(static=True)
    NA: int = eqx.field(static=True)

    def __init__(self, pspec: dict, action_space, observation_space):
        self.NHR = int(pspec["NHR"])
        self.box = bool(pspec["box"])
        self.NH = int(pspec["NH"]); self.NA = int(pspec["NA"])
        self.ACT = jnp.asarray(pspec["ACT"], dtype=float if self.box else int)
        self.V = jnp.asarray(pspec["V"], dtype=float)
        self.LP = jnp.asarray(pspec["LP"], dtype=float)
        self.MU = jnp.asarray(pspec["MU"], dtype=float)
        self.ENT = jnp.asarray(pspec.get("ENT", [0.0] * len(pspec["MU"])), dtype=float)
        self.action_space = action_space
        self.observation_space = observation_space

    def reset(self, *, key):
        return TabPState(raw(key) % self.NHR)

    def _oi(self, observation):
        return jnp.floor(jnp.asarray(observation, dtype=float).reshape(-1)[0]).astype(int)

    def _logp(self, oi, action):
        if self.box:
            a = jnp.asarray(action, dtype=float).reshape(())
            return -((a - self.MU[oi]) * (a - self.MU[oi]))
        return self.LP[oi, jnp.asarray(action, dtype=int).reshape(())]

    def _choose(self, state, observation, key, action_mask):
        oi = self._oi(observation)
        j = 0 if key is None else raw(key) % self.ACT.shape[2]
        cand = self.ACT[oi, state.h, j]
        if action_mask is not None and not self.box:
            idx = (cand + jnp.arange(self.NA)) % self.NA
            allowed = jnp.asarray(action_mask)[idx]
            a = jnp.where(jnp.any(allowed), idx[jnp.argmax(allowed)], cand)
        else:
            a = cand
        if self.box:
            a = a.reshape(self.action_space.shape)
        return oi, a, TabPState((state.h + 1 + oi) % self.NH)

    def __call__(self, state, observation, *, key=None, action_mask=None):
        oi, a, nxt = self._choose(state, observation, key, action_mask)
        return nxt, a

    def action_and_value(self, state, observation, *, key, action_mask=None):
        oi, a, nxt = self._choose(state, observation, key, action_mask)
        return nxt, a, self.V[oi, state.h], self._logp(oi, a)

    def value(self, state, observation):
        return state, self.V[self._oi(observation), state.h]

    def evaluate_action(self, state, observation, action, *, action_mask=None):
        oi = self._oi(observation)
        return state, self.V[oi, state.h], self._logp(oi, action), self.ENT[oi]


def random_ptab(rng, spec, asp, nobs, det=False):
    """stub policy tables for an env whose (wrapped) action space is `asp` and whose observations are ints < nobs"""
    NH = int(rng.integers(1, 4)); KA = 1 if det else int(rng.integers(1, 4))
    box = asp[0] == "box"
    dy = lambda lo, hi, den: float(rng.integers(lo, hi + 1)) / den
    if box:
        lo = asp[2] if asp[2] is not None else -2.0
        hi = asp[3] if asp[3] is not None else 2.0
        # proposals deliberately outside [lo, hi] so that clipping is observable
        ACT = [[[dy(int(lo * 4) - 6, int(hi * 4) + 6, 4) for _ in range(KA)] for _ in range(NH)] for _ in range(nobs)]
        NA = 1
    else:
        NA = int(asp[1])
        ACT = [[[int(rng.integers(0, NA)) for _ in range(KA)] for _ in range(NH)] for _ in range(nobs)]
    return {"box": box, "NH": NH, "NHR": 1 if det else NH, "NA": NA, "ACT": ACT,
            "V": [[dy(-8, 8, 2) for _ in range(NH)] for _ in range(nobs)],
            "LP": [[dy(-16, 0, 4) for _ in range(max(NA, 1))] for _ in range(nobs)],
            "MU": [dy(-4, 4, 2) for _ in range(nobs)]}


def ptab_lit(p):
    g3 = lambda rows: listl(listl(listl(ql(x) for x in r) for r in m) for m in rows)
    g2 = lambda m: listl(listl(ql(x) for x in r) for r in m)
    return f"(Build_ptab {zl(p['NH'])} {zl(p['NHR'])} {zl(p['NA'])} {g3(p['ACT'])} {g2(p['V'])} {g2(p['LP'])} {listl(ql(x) for x in p['MU'])} {bl(p['box'])})"
