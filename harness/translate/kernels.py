"""Kernel specifications: which lerax functions are regenerated as Coq definitions, how their parameters are
described to the symbolic executor (kernel.py), and which outputs are printed.

generate(pid, out_dir) writes coq/gen/<pid>/GenK_<pid>.v from the lerax source found under LERAX_SRC (default: /repo/src).
The link theorems in coq/link/<pid>_link.v (committed) state that the generated definitions equal the hand-written models
the property theorems are about; `CheckRun.kernel_link` (harness/common.py) regenerates and re-checks them on every run.
"""
from __future__ import annotations

import ast
import os
from pathlib import Path

from .ir import TranslateError
from .kernel import (Closure, Executor, Num, Obj, Prim, Sc, Static, Vec, fail, find_function, lift, materialise, run_function, set_carrier, term_of,
                     to_sc)


def src_root() -> Path:
    return Path(os.environ.get("LERAX_SRC", "/repo/src")) / "lerax"


def vecR(name):
    return Vec.base(name, "R")


def vecB(name):
    return Vec.base(name, "B")


def R(name):
    return Sc("R", name)


def Z(name):
    return Sc("Z", name)


def B(name):
    return Sc("B", name)


def K(name):
    return Sc("K", name)


def O(name):
    return Sc("O", name)


class Kernel:
    """one generated definition group: a source function and the Coq definitions printed from its symbolic result"""

    def __init__(self, name, file, cls, func, bindings, params, outputs, prims=None, variables=(), module_funcs=(), carrier="R"):
        self.carrier = carrier
        self.name, self.file, self.cls, self.func = name, file, cls, func
        self.bindings = bindings          # callable () -> dict parameter name -> symbolic value
        self.params = params              # Coq binder text of the generated definitions
        self.outputs = outputs            # callable (result value, executor) -> [(suffix, coq type, coq term)]
        self.prims = prims or {}
        self.variables = variables        # Section variables (text lines)
        self.module_funcs = module_funcs  # names of module-level helper functions made callable


def _tree_at(ex, n, args, kwargs):
    """eqx.tree_at(lambda x: (x.f1, x.f2), obj, (v1, v2))  ->  Obj with the named fields replaced"""
    if len(args) != 3 or kwargs:
        fail(n, "tree_at arity")
    where, obj, repl = args
    if not (isinstance(where, Closure) and isinstance(where.node, ast.Lambda) and isinstance(obj, Obj)):
        fail(n, "tree_at form")
    lam = where.node
    arg = lam.args.args[0].arg
    body = lam.body
    elts = body.elts if isinstance(body, ast.Tuple) else [body]
    vals = repl if isinstance(body, ast.Tuple) else (repl,)
    if not isinstance(vals, tuple) or len(vals) != len(elts):
        fail(n, "tree_at replacement arity")
    fields = dict(obj.fields)
    for e, v in zip(elts, vals):
        if not (isinstance(e, ast.Attribute) and isinstance(e.value, ast.Name) and e.value.id == arg and e.attr in fields):
            fail(n, "tree_at selector")
        fields[e.attr] = v
    return Obj(fields, obj.name)


# ------------------------------------------------------------------------------------------------ C03: GAE
def _gae_bind():
    return {"self": Obj({"values": vecR("values"), "rewards": vecR("rewards"), "dones": vecB("dones"),
                         "returns": Static(None), "advantages": Static(None)}, "RolloutBuffer"),
            "last_value": R("last"), "gae_lambda": R("lam"), "gamma": R("gam")}


def _gae_out(res, ex):
    if not isinstance(res, Obj):
        raise TranslateError("compute_returns_and_advantages no longer returns the buffer with replaced fields")
    for f in ("values", "rewards", "dones"):
        v = res.fields[f]
        if not (isinstance(v, Vec) and materialise(v) == f):
            raise TranslateError(f"compute_returns_and_advantages changes the field {f}")
    return [("advantages", "list R", term_of(res.fields["advantages"])), ("returns", "list R", term_of(res.fields["returns"]))]


def ctor_prim(file, cls):
    """constructor call of a lerax record class -> Obj; the positional order is read from the class's __init__ (or its annotated
    fields when it has none) in the source under translation"""
    def f(ex, n, args, kwargs):
        tree = ast.parse((src_root() / file).read_text())
        cs = [c for c in tree.body if isinstance(c, ast.ClassDef) and c.name == cls]
        if len(cs) != 1:
            fail(n, f"class {cls} not found")
        inits = [m for m in cs[0].body if isinstance(m, ast.FunctionDef) and m.name == "__init__"]
        if inits:
            names = [a.arg for a in inits[0].args.args[1:]]
            for st in inits[0].body:      # only `self.x = jnp.asarray(x)` / `self.x = x` initialisers are understood
                if isinstance(st, ast.Expr) and isinstance(st.value, ast.Constant):
                    continue
                ok = (isinstance(st, ast.Assign) and len(st.targets) == 1 and isinstance(st.targets[0], ast.Attribute)
                      and ast.unparse(st.targets[0]) == "self." + st.targets[0].attr
                      and ast.unparse(st.value) in (st.targets[0].attr, f"jnp.asarray({st.targets[0].attr})"))
                if not ok:
                    fail(st, f"{cls}.__init__ does more than store its arguments")
        else:
            names = [m.target.id for m in cs[0].body if isinstance(m, ast.AnnAssign) and isinstance(m.target, ast.Name)]
        if len(args) > len(names) or any(k not in names for k in kwargs):
            fail(n, f"constructor call of {cls} does not match its fields {names}")
        fields = dict(zip(names, args))
        for k, v in kwargs.items():
            if k in fields:
                fail(n, f"field {k} given twice")
            fields[k] = v
        if set(fields) != set(names):
            fail(n, f"constructor call of {cls} leaves fields unset")
        return Obj(fields, cls)
    return Prim(f)


# ------------------------------------------------------------------------------------------------ C19: logging EMA
LFIELDS = [("step", "Z"), ("episode_return", "R"), ("episode_length", "Z"), ("episode_done", "B"), ("average_return", "R"),
           ("average_length", "R")]


def _lnext_bind():
    return {"self": Obj({"step": Z("(l_step s)"), "episode_return": R("(l_ret s)"), "episode_length": Z("(l_len s)"),
                         "episode_done": B("(l_done s)"), "average_return": R("(l_avg_ret s)"), "average_length": R("(l_avg_len s)")},
                        "LoggingCallbackStepState"),
            "reward": R("r"), "done": B("d"), "alpha": R("alpha")}


def _lnext_out(res, ex):
    if not (isinstance(res, Obj) and set(res.fields) == {f for f, _ in LFIELDS}):
        raise TranslateError("next() no longer returns a LoggingCallbackStepState")
    return [(f, {"Z": "Z", "R": "Q", "B": "bool"}[ty], term_of(res.fields[f], ty)) for f, ty in LFIELDS]


# ------------------------------------------------------------------------------------------------ C06: replay ring
def vecO(name):
    return Vec.base(name, "O")


RB_FIELDS = [("observations", "f_obs", "O", "Ob"), ("next_observations", "f_next", "O", "Ob"), ("actions", "f_act", "O", "Ac"),
             ("rewards", "f_rew", "R", "Q"), ("dones", "f_done", "B", "bool"), ("timeouts", "f_timeout", "B", "bool"),
             ("states", "f_ps", "O", "Ps"), ("next_states", "f_nps", "O", "Ps")]


def _rb_self():
    f = {py: Vec.base(f"({coq} b)", ety) for py, coq, ety, _ in RB_FIELDS}
    f.update({"position": Z("(Z.of_nat (b_pos b))"), "size": Z("(Z.of_nat (b_size b))"), "action_masks": Static(None)})
    return Obj(f, "ReplayBuffer")


def _rb_add_bind():
    return {"self": _rb_self(), "observation": O("(t_obs x)"), "next_observation": O("(t_next x)"), "action": O("(t_act x)"),
            "reward": R("(t_rew x)"), "done": B("(t_done x)"), "timeout": B("(t_timeout x)"), "state": O("(t_ps x)"),
            "next_state": O("(t_nps x)"), "action_mask": Static(None)}


def _rb_add_out(res, ex):
    if not isinstance(res, Obj):
        raise TranslateError("add no longer returns the buffer")
    if term_of(res.fields["size"]) != "(Z.of_nat (b_size b))" or not isinstance(res.fields["action_masks"], Static):
        raise TranslateError("add changes the capacity or the masks")
    outs = [("position", "Z", term_of(res.fields["position"], "Z"))]
    for py, coq, ety, cty in RB_FIELDS:
        outs.append((py, f"list {cty}", term_of(res.fields[py])))
    return outs


def _rb_cs_out(res, ex):
    return [("value", "Z", term_of(res, "Z"))]


# ------------------------------------------------------------------------------------------------ C07: TD targets
def _q_oracle(which):
    """policy.q_values(states, observations) under jax.vmap: the per-sample vectors of action values, as an oracle table"""
    def f(ex, n, args, kwargs):
        if kwargs or len(args) != 2 or not all(isinstance(a, Vec) for a in args):
            fail(n, "q_values call form")
        return (Static(None), Vec.base(f"(qv {which} {materialise(args[0])} {materialise(args[1])})", "O"))
    return Prim(f)


def _dqn_bind():
    batch = Obj({"states": vecO("states"), "observations": vecO("obs"), "next_states": vecO("next_states"),
                 "next_observations": vecO("next_obs"), "actions": Vec.base("actions", "Z"), "rewards": vecR("rewards"),
                 "dones": vecB("dones"), "timeouts": vecB("timeouts")}, "batch")
    return {"policy": Obj({"q_values": _q_oracle("online")}, "policy"), "target_policy": Obj({"q_values": _q_oracle("target")}, "target"),
            "batch": batch, "gamma": R("gamma")}


def _sac_target_bind():
    def pol(ex, n, args, kwargs):
        if len(args) != 2 or set(kwargs) != {"key"} or not (isinstance(args[0], Static) and args[0].v is None):
            fail(n, "action_and_log_prob call form")
        return (Static(None), Sc("O", f"(pi_act {args[1].t} {kwargs['key'].t})"), Sc("R", f"(pi_logp {args[1].t} {kwargs['key'].t})"))

    def qf(name):
        def f(ex, n, args, kwargs):
            if kwargs or len(args) != 2:
                fail(n, "critic call form")
            return Sc("R", f"({name} {args[0].t} {args[1].t})")
        return Prim(f)
    return {"next_obs": O("next_obs"), "reward": R("reward"), "done": B("done"), "timeout": B("timeout"), "action_key": K("key"),
            "@policy": Obj({"action_and_log_prob": Prim(pol)}, "policy"), "@qf1_target": qf("q1t"), "@qf2_target": qf("q2t"),
            "@alpha": R("alpha"), "@self": Obj({"gamma": R("gamma")}, "self")}


# ------------------------------------------------------------------------------------------------ C08: PPO loss
def _ppo_bind():
    buf = Obj({"states": vecO("states"), "observations": vecO("obs"), "actions": vecO("actions"), "action_masks": vecO("masks"),
               "log_probs": vecR("old_log_probs"), "advantages": vecR("advs"), "values": vecR("old_values"), "returns": vecR("returns")},
              "rollout_buffer")

    def evaluate(ex, n, args, kwargs):
        got = [materialise(a) if isinstance(a, Vec) else None for a in args] + [materialise(kwargs[k]) if isinstance(kwargs.get(k), Vec) else None for k in ("action_mask",)]
        if got != ["states", "obs", "actions", "masks"] or set(kwargs) != {"action_mask"}:
            fail(n, "evaluate_action is no longer called on the stored (states, observations, actions, action_mask=action_masks)")
        return (Static(None), vecR("values"), vecR("log_probs"), vecR("entropy"))
    return {"policy": Obj({"evaluate_action": Prim(evaluate)}, "policy"), "rollout_buffer": buf, "normalize_advantages": B("normalize"),
            "clip_coefficient": R("eps"), "clip_value_loss": B("clip_vf"), "value_loss_coefficient": R("cv"),
            "entropy_loss_coefficient": R("ce")}


def _ppo_out(res, ex):
    if not (isinstance(res, tuple) and len(res) == 2 and isinstance(res[1], tuple) and len(res[1]) == 5):
        raise TranslateError("ppo_loss no longer returns (loss, PPOStats(approx_kl, loss, policy_loss, value_loss, entropy_loss))")
    names = ["approx_kl", "total", "policy_loss", "value_loss", "entropy_loss"]
    if term_of(res[0], "R") != term_of(res[1][1], "R"):
        raise TranslateError("the differentiated loss is not the reported total loss")
    return [(nm, "R", term_of(v, "R")) for nm, v in zip(names, res[1])]


def _p_std(ex, n, args, kwargs):
    if kwargs or len(args) != 1 or not isinstance(args[0], Vec):
        fail(n, "std form")
    return Sc("R", f"(std {materialise(args[0])})")


KERNELS = {
    "C08": [Kernel("ppo", "algorithm/ppo.py", "PPO", "ppo_loss", _ppo_bind,
                   "(normalize clip_vf : bool) (eps cv ce : R) (values log_probs entropy old_log_probs advs old_values returns : list R)",
                   _ppo_out,
                   prims={"jnp.std": Prim(_p_std), "PPOStats": Prim(lambda ex, n, a, k: tuple(a) if not k else fail(n, "PPOStats keywords")),
                          "jnp.finfo": Prim(lambda ex, n, a, k: Obj({"eps": R("feps")}, "finfo"))},
                   variables=("(std : list R -> R)", "(feps : R)"))],
    "C07": [Kernel("dqn", "algorithm/dqn.py", "DQN", "dqn_loss", _dqn_bind,
                   "(states obs next_states next_obs : list Xs) (actions : list Z) (rewards : list R) (dones timeouts : list bool) (gamma : R)",
                   lambda res, ex: [("loss", "R", term_of(res, "R"))],
                   variables=("(Pol Xs : Type)", "(online target : Pol)", "(qv : Pol -> list Xs -> list Xs -> list (list R))")),
            Kernel("sac", "algorithm/sac.py", "SAC", "sac_train/compute_target", _sac_target_bind,
                   "(gamma alpha : R) (next_obs : Ob) (reward : R) (done timeout : bool) (key : Key)",
                   lambda res, ex: [("target", "R", term_of(res, "R"))],
                   variables=("(Ob Act Key : Type)", "(pi_act : Ob -> Key -> Act)", "(pi_logp : Ob -> Key -> R)", "(q1t q2t : Ob -> Act -> R)"))],
    "C06": [Kernel("add", "buffer/replay.py", "ReplayBuffer", "add", _rb_add_bind,
                   "{Ob Ac Ps : Type} (b : @soa Ob Ac Ps) (x : @trow Ob Ac Ps)", _rb_add_out, carrier="Q",
                   prims={"eqx.tree_at": Prim(_tree_at)}),
            Kernel("current_size", "buffer/replay.py", "ReplayBuffer", "current_size", lambda: {"self": _rb_self()},
                   "{Ob Ac Ps : Type} (b : @soa Ob Ac Ps)", _rb_cs_out, carrier="Q")],
    "C19": [Kernel("lnext", "callback/logging/callback.py", "LoggingCallbackStepState", "next", _lnext_bind,
                   "(alpha : Q) (s : lstate) (r : Q) (d : bool)", _lnext_out, carrier="Q",
                   prims={"LoggingCallbackStepState": ctor_prim("callback/logging/callback.py", "LoggingCallbackStepState")})],
    "C03": [Kernel("gae", "buffer/rollout.py", "RolloutBuffer", "compute_returns_and_advantages", _gae_bind,
                   "(gam lam last : R) (rewards values : list R) (dones : list bool)", _gae_out,
                   prims={"eqx.tree_at": Prim(_tree_at)})],
}


# ------------------------------------------------------------------------------------------------ driver
def translate(pid):
    """[(kernel, sha, [(suffix, type, term)])]"""
    out = []
    for k in KERNELS[pid]:
        path = src_root() / k.file
        try:
            fn, sha = find_function(path, k.cls, k.func)
            set_carrier(k.carrier)
            ex = Executor(prims=k.prims)
            scope = {}
            if k.module_funcs:
                tree = ast.parse(path.read_text())
                for node in tree.body:
                    if isinstance(node, ast.FunctionDef) and node.name in k.module_funcs:
                        scope[node.name] = Closure(node, scope)
            b = k.bindings()
            scope.update({nm[1:]: v for nm, v in b.items() if nm.startswith("@")})
            res = run_function(ex, fn, b, scope)
            out.append((k, sha, k.outputs(res, ex)))
        except TranslateError as e:
            raise TranslateError(f"{k.file}:{k.cls or ''}.{k.func}: {e}") from e
    return out


HEADER = """(* GENERATED by harness/translate/kernels.py from the lerax source.  DO NOT EDIT: the {pid} check regenerates this
   file on every run and re-checks coq/link/{pid}_link.v against it. *)
From Coq Require Import Reals List ZArith QArith Qminmax Bool.
From Lerax Require Import KBase{imports}.
Import ListNotations.
"""


def coq_text(pid, imports=()):
    parts = [HEADER.format(pid=pid, imports="".join(" " + i for i in imports))]
    for k, sha, outs in translate(pid):
        parts.append(f"(* {k.file} :: {(k.cls + '.') if k.cls else ''}{k.func}   (sha256 of the file {sha}) *)")
        binders = (" ".join(k.variables) + " " if k.variables else "") + k.params
        for suffix, ty, term in outs:
            parts.append(f"Definition gen_{k.name}_{suffix} {binders} : {ty} :=\n  {term}.")
        parts.append("")
    return "\n".join(parts)


IMPORTS = {"C19": ("Logging",), "C06": ("Replay",)}


def generate(pid, coq_dir: Path):
    d = Path(coq_dir) / "gen" / pid
    d.mkdir(parents=True, exist_ok=True)
    p = d / f"GenK_{pid}.v"
    txt = coq_text(pid, IMPORTS.get(pid, ()))
    if not p.exists() or p.read_text() != txt:
        p.write_text(txt)
    return p


if __name__ == "__main__":
    import sys

    for pid in sys.argv[1:] or sorted(KERNELS):
        print(coq_text(pid, IMPORTS.get(pid, ())))
