"""Kernel specifications: which lerax functions are regenerated as Coq definitions, how their parameters are
described to the symbolic executor (kernel.py), and which outputs are printed.

generate(pid, out_dir) writes coq/gen/<pid>/GenK_<pid>.v from the lerax source found under LERAX_SRC (default: /repo/src).
The link theorems in coq/link/<pid>_link.v (committed) state that the generated definitions equal the hand-written models
the property theorems are about; `CheckRun.kernel_link` (harness/common.py) regenerates and re-checks them on every run.
"""
from __future__ import annotations

import ast
import os
from pathlib import Path

from .ir import TranslateError
from .kernel import (BUILTIN_PRIMS, Closure, Method, Executor, Num, Obj, Prim, Sc, Static, Vec, fail, find_function, lift, materialise, run_function, set_carrier, term_of,
                     to_sc)


def src_root() -> Path:
    return Path(os.environ.get("LERAX_SRC", "/repo/src")) / "lerax"


def vecR(name):
    return Vec.base(name, "R")


def vecB(name):
    return Vec.base(name, "B")


def R(name):
    return Sc("R", name)


def Z(name):
    return Sc("Z", name)


def B(name):
    return Sc("B", name)


def K(name):
    return Sc("K", name)


def O(name):
    return Sc("O", name)


class Kernel:
    """one generated definition group: a source function and the Coq definitions printed from its symbolic result"""

    def __init__(self, name, file, cls, func, bindings, params, outputs, prims=None, variables=(), module_funcs=(), carrier="R", obj_methods=None,
                 opaque_attrs=None):
        self.carrier = carrier
        self.obj_methods = obj_methods or {}
        self.opaque_attrs = opaque_attrs or {}
        self.name, self.file, self.cls, self.func = name, file, cls, func
        self.bindings = bindings          # callable () -> dict parameter name -> symbolic value
        self.params = params              # Coq binder text of the generated definitions
        self.outputs = outputs            # callable (result value, executor) -> [(suffix, coq type, coq term)]
        self.prims = prims or {}
        self.variables = variables        # Section variables (text lines)
        self.module_funcs = module_funcs  # names of module-level helper functions made callable


BUILTIN_COND = BUILTIN_PRIMS["lax.cond"]


def _tree_at(ex, n, args, kwargs):
    """eqx.tree_at(lambda x: (x.f1, x.f2), obj, (v1, v2))  ->  Obj with the named fields replaced"""
    if len(args) != 3 or kwargs:
        fail(n, "tree_at arity")
    where, obj, repl = args
    if not (isinstance(where, Closure) and isinstance(where.node, ast.Lambda) and isinstance(obj, Obj)):
        fail(n, "tree_at form")
    lam = where.node
    arg = lam.args.args[0].arg
    body = lam.body
    elts = body.elts if isinstance(body, ast.Tuple) else [body]
    vals = repl if isinstance(body, ast.Tuple) else (repl,)
    if not isinstance(vals, tuple) or len(vals) != len(elts):
        fail(n, "tree_at replacement arity")
    fields = dict(obj.fields)
    for e, v in zip(elts, vals):
        if not (isinstance(e, ast.Attribute) and isinstance(e.value, ast.Name) and e.value.id == arg and e.attr in fields):
            fail(n, "tree_at selector")
        fields[e.attr] = v
    return Obj(fields, obj.name)


# ------------------------------------------------------------------------------------------------ C03: GAE
def _gae_bind():
    return {"self": Obj({"values": vecR("values"), "rewards": vecR("rewards"), "dones": vecB("dones"),
                         "returns": Static(None), "advantages": Static(None)}, "RolloutBuffer"),
            "last_value": R("last"), "gae_lambda": R("lam"), "gamma": R("gam")}


def _gae_out(res, ex):
    if not isinstance(res, Obj):
        raise TranslateError("compute_returns_and_advantages no longer returns the buffer with replaced fields")
    for f in ("values", "rewards", "dones"):
        v = res.fields[f]
        if not (isinstance(v, Vec) and materialise(v) == f):
            raise TranslateError(f"compute_returns_and_advantages changes the field {f}")
    return [("advantages", "list R", term_of(res.fields["advantages"])), ("returns", "list R", term_of(res.fields["returns"]))]


def ctor_prim(file, cls):
    """constructor call of a lerax record class -> Obj; the positional order is read from the class's __init__ (or its annotated
    fields when it has none) in the source under translation"""
    def f(ex, n, args, kwargs):
        tree = ast.parse((src_root() / file).read_text())
        cs = [c for c in tree.body if isinstance(c, ast.ClassDef) and c.name == cls]
        if len(cs) != 1:
            fail(n, f"class {cls} not found")
        inits = [m for m in cs[0].body if isinstance(m, ast.FunctionDef) and m.name == "__init__"]
        if inits:
            names = [a.arg for a in inits[0].args.args[1:]]
            for st in inits[0].body:      # only `self.x = jnp.asarray(x)` / `self.x = x` initialisers are understood
                if isinstance(st, ast.Expr) and isinstance(st.value, ast.Constant):
                    continue
                import re as _re
                ok = (isinstance(st, ast.Assign) and len(st.targets) == 1 and isinstance(st.targets[0], ast.Attribute)
                      and ast.unparse(st.targets[0]) == "self." + st.targets[0].attr
                      and _re.fullmatch(r"(jnp\.(as)?array\()?" + st.targets[0].attr + r"(, dtype=\w+)?\)?", ast.unparse(st.value)))
                if not ok:
                    fail(st, f"{cls}.__init__ does more than store its arguments")
        else:
            names = [m.target.id for m in cs[0].body if isinstance(m, ast.AnnAssign) and isinstance(m.target, ast.Name)]
        if len(args) > len(names) or any(k not in names for k in kwargs):
            fail(n, f"constructor call of {cls} does not match its fields {names}")
        fields = dict(zip(names, args))
        for k, v in kwargs.items():
            if k in fields:
                fail(n, f"field {k} given twice")
            fields[k] = v
        if set(fields) != set(names):
            fail(n, f"constructor call of {cls} leaves fields unset")
        return Obj(fields, cls)
    return Prim(f)


# ------------------------------------------------------------------------------------------------ C19: logging EMA
LFIELDS = [("step", "Z"), ("episode_return", "R"), ("episode_length", "Z"), ("episode_done", "B"), ("average_return", "R"),
           ("average_length", "R")]


def _lnext_bind():
    return {"self": Obj({"step": Z("(l_step s)"), "episode_return": R("(l_ret s)"), "episode_length": Z("(l_len s)"),
                         "episode_done": B("(l_done s)"), "average_return": R("(l_avg_ret s)"), "average_length": R("(l_avg_len s)")},
                        "LoggingCallbackStepState"),
            "reward": R("r"), "done": B("d"), "alpha": R("alpha")}


def _lnext_out(res, ex):
    if not (isinstance(res, Obj) and set(res.fields) == {f for f, _ in LFIELDS}):
        raise TranslateError("next() no longer returns a LoggingCallbackStepState")
    return [(f, {"Z": "Z", "R": "Q", "B": "bool"}[ty], term_of(res.fields[f], ty)) for f, ty in LFIELDS]


# ------------------------------------------------------------------------------------------------ C06: replay ring
def vecO(name):
    return Vec.base(name, "O")


RB_FIELDS = [("observations", "f_obs", "O", "Ob"), ("next_observations", "f_next", "O", "Ob"), ("actions", "f_act", "O", "Ac"),
             ("rewards", "f_rew", "R", "Q"), ("dones", "f_done", "B", "bool"), ("timeouts", "f_timeout", "B", "bool"),
             ("states", "f_ps", "O", "Ps"), ("next_states", "f_nps", "O", "Ps")]


def _rb_self():
    f = {py: Vec.base(f"({coq} b)", ety) for py, coq, ety, _ in RB_FIELDS}
    f.update({"position": Z("(Z.of_nat (b_pos b))"), "size": Z("(Z.of_nat (b_size b))"), "action_masks": Static(None)})
    return Obj(f, "ReplayBuffer")


def _rb_add_bind():
    return {"self": _rb_self(), "observation": O("(t_obs x)"), "next_observation": O("(t_next x)"), "action": O("(t_act x)"),
            "reward": R("(t_rew x)"), "done": B("(t_done x)"), "timeout": B("(t_timeout x)"), "state": O("(t_ps x)"),
            "next_state": O("(t_nps x)"), "action_mask": Static(None)}


def _rb_add_out(res, ex):
    if not isinstance(res, Obj):
        raise TranslateError("add no longer returns the buffer")
    if term_of(res.fields["size"]) != "(Z.of_nat (b_size b))" or not isinstance(res.fields["action_masks"], Static):
        raise TranslateError("add changes the capacity or the masks")
    outs = [("position", "Z", term_of(res.fields["position"], "Z"))]
    for py, coq, ety, cty in RB_FIELDS:
        outs.append((py, f"list {cty}", term_of(res.fields[py])))
    return outs


def _rb_sample_bind():
    """single (unstacked) buffer: current_size is a scalar; jr.choice is the sampler oracle, its arguments are what is translated"""
    selfo = _rb_self()
    selfo.fields["current_size"] = Z("(Z.of_nat (current_size b))")
    selfo.fields["flatten_axes"] = Prim(lambda ex, n, a, k: Obj({"rewards": Obj({"shape": (Z("(Z.of_nat (b_size b))"),)}, "arr")}, "flat"))

    def choice(ex, n, a, k):
        if len(a) != 2 or set(k) != {"shape", "replace", "p"}:
            fail(n, "jr.choice call form")
        rep = k["replace"]
        if not (isinstance(rep, Sc) and rep.ty == "B"):
            fail(n, "replace is not a boolean")
        return Obj({"total": a[1], "shape": k["shape"], "replace": rep, "p": k["p"]}, "choice")
    return {"self": selfo, "batch_size": Z("(Z.of_nat batch)"), "key": K("k"), "@jr.choice": Prim(choice),
            "@jax.tree.map": Prim(lambda ex, n, a, k: Obj({"take_fn": a[0], "tree": a[1], "choice": None}, "gathered")),
            "@jnp.take": Prim(lambda ex, n, a, k: fail(n, "take outside tree.map"))}


def _rb_sample_out(res, ex):
    if not (isinstance(res, Obj) and res.name == "gathered" and isinstance(res.fields["take_fn"], Closure)):
        raise TranslateError("sample no longer returns jax.tree.map(take_sample, flattened buffer)")
    clo = res.fields["take_fn"]
    ch = clo.scope.get("batch_indices")
    if not (isinstance(ch, Obj) and ch.name == "choice"):
        raise TranslateError("the gathered indices are not the result of jr.choice")
    if "jnp.take(x, batch_indices, axis=0)" not in ast.unparse(clo.node):
        raise TranslateError("leaves are not gathered with jnp.take(x, batch_indices, axis=0)")
    shape = ch.fields["shape"]
    if not (isinstance(shape, tuple) and len(shape) == 1 and term_of(shape[0]) == "(Z.of_nat batch)"):
        raise TranslateError("the number of sampled indices is not batch_size")
    return [("population", "Z", term_of(ch.fields["total"], "Z")), ("replace", "bool", term_of(ch.fields["replace"])),
            ("probs", "list Q", term_of(ch.fields["p"]))]


def _rb_cs_out(res, ex):
    return [("value", "Z", term_of(res, "Z"))]


# ------------------------------------------------------------------------------------------------ C07: TD targets
def _q_oracle(which):
    """policy.q_values(states, observations) under jax.vmap: the per-sample vectors of action values, as an oracle table"""
    def f(ex, n, args, kwargs):
        if kwargs or len(args) != 2 or not all(isinstance(a, Vec) for a in args):
            fail(n, "q_values call form")
        return (Static(None), Vec.base(f"(qv {which} {materialise(args[0])} {materialise(args[1])})", "O"))
    return Prim(f)


def _dqn_bind():
    batch = Obj({"states": vecO("states"), "observations": vecO("obs"), "next_states": vecO("next_states"),
                 "next_observations": vecO("next_obs"), "actions": Vec.base("actions", "Z"), "rewards": vecR("rewards"),
                 "dones": vecB("dones"), "timeouts": vecB("timeouts")}, "batch")
    return {"policy": Obj({"q_values": _q_oracle("online")}, "policy"), "target_policy": Obj({"q_values": _q_oracle("target")}, "target"),
            "batch": batch, "gamma": R("gamma")}


def _sac_target_bind():
    def pol(ex, n, args, kwargs):
        if len(args) != 2 or set(kwargs) != {"key"} or not (isinstance(args[0], Static) and args[0].v is None):
            fail(n, "action_and_log_prob call form")
        return (Static(None), Sc("O", f"(pi_act {args[1].t} {kwargs['key'].t})"), Sc("R", f"(pi_logp {args[1].t} {kwargs['key'].t})"))

    def qf(name):
        def f(ex, n, args, kwargs):
            if kwargs or len(args) != 2:
                fail(n, "critic call form")
            return Sc("R", f"({name} {args[0].t} {args[1].t})")
        return Prim(f)
    return {"next_obs": O("next_obs"), "reward": R("reward"), "done": B("done"), "timeout": B("timeout"), "action_key": K("key"),
            "@policy": Obj({"action_and_log_prob": Prim(pol)}, "policy"), "@qf1_target": qf("q1t"), "@qf2_target": qf("q2t"),
            "@alpha": R("alpha"), "@self": Obj({"gamma": R("gamma")}, "self")}


# ------------------------------------------------------------------------------------------------ C08: PPO loss
def _ppo_bind():
    buf = Obj({"states": vecO("states"), "observations": vecO("obs"), "actions": vecO("actions"), "action_masks": vecO("masks"),
               "log_probs": vecR("old_log_probs"), "advantages": vecR("advs"), "values": vecR("old_values"), "returns": vecR("returns")},
              "rollout_buffer")

    def evaluate(ex, n, args, kwargs):
        got = [materialise(a) if isinstance(a, Vec) else None for a in args] + [materialise(kwargs[k]) if isinstance(kwargs.get(k), Vec) else None for k in ("action_mask",)]
        if got != ["states", "obs", "actions", "masks"] or set(kwargs) != {"action_mask"}:
            fail(n, "evaluate_action is no longer called on the stored (states, observations, actions, action_mask=action_masks)")
        return (Static(None), vecR("values"), vecR("log_probs"), vecR("entropy"))
    return {"policy": Obj({"evaluate_action": Prim(evaluate)}, "policy"), "rollout_buffer": buf, "normalize_advantages": B("normalize"),
            "clip_coefficient": R("eps"), "clip_value_loss": B("clip_vf"), "value_loss_coefficient": R("cv"),
            "entropy_loss_coefficient": R("ce")}


def _ppo_out(res, ex):
    if not (isinstance(res, tuple) and len(res) == 2 and isinstance(res[1], tuple) and len(res[1]) == 5):
        raise TranslateError("ppo_loss no longer returns (loss, PPOStats(approx_kl, loss, policy_loss, value_loss, entropy_loss))")
    names = ["approx_kl", "total", "policy_loss", "value_loss", "entropy_loss"]
    if term_of(res[0], "R") != term_of(res[1][1], "R"):
        raise TranslateError("the differentiated loss is not the reported total loss")
    return [(nm, "R", term_of(v, "R")) for nm, v in zip(names, res[1])]


def _p_std(ex, n, args, kwargs):
    if kwargs or len(args) != 1 or not isinstance(args[0], Vec):
        fail(n, "std form")
    return Sc("R", f"(std {materialise(args[0])})")


# ------------------------------------------------------------------------------------------------ C10: schedule arithmetic
def _numit_bind():
    return {"self": Obj({"num_envs": Z("N"), "num_steps": Z("T")}, "algo"), "total_timesteps": Z("total")}


def _dqn_periter_bind():
    return {"self": Obj({"target_update_interval": Z("(Z.of_nat interval)")}, "DQN"),
            "state": Obj({"iteration_count": Z("(Z.of_nat count)"), "policy": O("online"), "target_policy": O("target")}, "DQNState")}


def _dqn_periter_out(res, ex):
    if not (isinstance(res, Obj) and term_of(res.fields["iteration_count"]) == "(Z.of_nat count)" and term_of(res.fields["policy"]) == "online"):
        raise TranslateError("per_iteration changes more than the target network")
    return [("target", "X", term_of(res.fields["target_policy"]))]


def _polyak_bind():
    return {"state": Obj({"qf1": R("q1"), "qf1_target": R("t1"), "qf2": R("q2"), "qf2_target": R("t2")}, "SACState"), "tau": R("tau")}


def _polyak_out(res, ex):
    if not (isinstance(res, Obj) and term_of(res.fields["qf1"]) == "q1" and term_of(res.fields["qf2"]) == "q2"):
        raise TranslateError("_soft_update_targets changes the online critics")
    return [("t1", "R", term_of(res.fields["qf1_target"], "R")), ("t2", "R", term_of(res.fields["qf2_target"], "R"))]


def _p_partition(ex, n, args, kwargs):
    """eqx.partition(tree, eqx.is_inexact_array): the parameters are modelled as ONE real leaf, the static part is opaque"""
    if len(args) != 2 or kwargs:
        fail(n, "partition form")
    return (args[0], Static("static"))


_SCHED_PRIMS = {"eqx.tree_at": Prim(_tree_at), "filter_cond": BUILTIN_COND, "eqx.partition": Prim(_p_partition),
                "eqx.is_inexact_array": Static("is_inexact_array"),
                "eqx.combine": Prim(lambda ex, n, a, k: a[0] if len(a) == 2 and isinstance(a[1], Static) else fail(n, "combine form"))}


# ------------------------------------------------------------------------------------------------ C01 / C13: environments
def env_obj(E):
    """an environment as the record E of coq/theories/Env.v: every functional component is an uninterpreted field of E"""
    def comp(field, npos, keyed):
        def f(ex, n, args, kwargs):
            if len(args) != npos or set(kwargs) != ({"key"} if keyed else set()):
                fail(n, f"call form of {field}")
            ts = [a.t if isinstance(a, Sc) else fail(n, "argument is not a scalar value") for a in args]
            if keyed:
                if not (isinstance(kwargs["key"], Sc) and kwargs["key"].ty == "K"):
                    fail(n, "key argument is not a key")
                ts.append(kwargs["key"].t)
            ty = {"e_term": "B", "e_trunc": "B", "e_rew": "R"}.get(field, "O")
            return Sc(ty, f"({field} {E} {' '.join(ts)})")
        return Prim(f)
    return Obj({"initial": comp("e_init", 0, True), "transition": comp("e_trans", 2, True), "observation": comp("e_obs", 1, True),
                "reward": comp("e_rew", 3, True), "terminal": comp("e_term", 1, True), "truncate": comp("e_trunc", 1, False),
                "action_mask": comp("e_mask", 1, True), "state_info": comp("e_sinfo", 1, False),
                "transition_info": comp("e_tinfo", 3, False)}, "env")


# ------------------------------------------------------------------------------------------------ C04: on-policy step
def env_obj_full(E):
    """environment record with its action space visible: isinstance(env.action_space, Box) and the bounds used for clipping"""
    o = env_obj(E)
    o.fields["action_space"] = Obj({"low": Sc("O", f"(sp_lo (e_asp {E}))"), "high": Sc("O", f"(sp_hi (e_asp {E}))"),
                                    "@isbox": Sc("B", f"(sp_is_box (e_asp {E}))")}, "space")
    return o


def _p_isinstance(ex, n, args, kwargs):
    if len(args) == 2 and isinstance(args[0], Obj) and "@isbox" in args[0].fields and isinstance(args[1], Static) and args[1].v == "Box":
        return args[0].fields["@isbox"]
    fail(n, "unsupported isinstance test")


def _p_clip_space(ex, n, args, kwargs):
    """jnp.clip(action, space.low, space.high) with the (possibly infinite) bounds of a space descriptor"""
    if len(args) == 3 and not kwargs and all(isinstance(a, Sc) for a in args) and args[1].ty == "O" and args[2].ty == "O":
        return Sc("R", f"(clipQ {args[1].t} {args[2].t} {to_sc(args[0], 'R', n).t})")
    fail(n, "unsupported clip")


def acpol_obj(P):
    def act(ex, n, args, kwargs):
        if len(args) != 2 or set(kwargs) != {"key", "action_mask"}:
            fail(n, "action_and_value call form")
        x = f"(p_act {P} {args[0].t} {args[1].t} {kwargs['key'].t} {kwargs['action_mask'].t})"
        return (Sc("O", f"(fst (fst (fst {x})))"), Sc("R", f"(snd (fst (fst {x})))"), Sc("R", f"(snd (fst {x}))"), Sc("R", f"(snd {x})"))

    def value(ex, n, args, kwargs):
        if len(args) != 2 or kwargs:
            fail(n, "value call form")
        return (Static(None), Sc("R", f"(p_value {P} {args[0].t} {args[1].t})"))

    def reset(ex, n, args, kwargs):
        if args or set(kwargs) != {"key"}:
            fail(n, "reset call form")
        return Sc("O", f"(p_reset {P} {kwargs['key'].t})")
    return Obj({"action_and_value": Prim(act), "value": Prim(value), "reset": Prim(reset)}, "policy")


def _onstep_bind():
    def on_step(ex, n, args, kwargs):
        if len(args) != 1 or set(kwargs) != {"key"} or not isinstance(args[0], Obj):
            fail(n, "on_step call form")
        return Obj({"ctx": args[0], "key": kwargs["key"]}, "callback_result")

    def step_context(ex, n, args, kwargs):
        names = ["state", "env", "policy", "done", "reward", "locals"]
        f = dict(zip(names, args)); f.update(kwargs)
        if set(f) != set(names):
            fail(n, "StepContext form")
        return Obj(f, "StepContext")
    return {"self": Obj({"gamma": R("gamma")}, "algo"), "env": env_obj_full("E"), "policy": acpol_obj("P"),
            "state": Obj({"env_state": O("es"), "policy_state": O("ps"), "callback_state": O("cbs")}, "step_state"),
            "key": K("k"), "callback": Obj({"on_step": Prim(on_step)}, "callback"),
            "@StepContext": Prim(step_context), "@locals": Prim(lambda ex, n, a, k: Static("locals")), "@Box": Static("Box"),
            "@isinstance": Prim(_p_isinstance), "@filter_cond": BUILTIN_COND,
            "@AbstractOnPolicyStepState": Prim(lambda ex, n, a, k: Obj(dict(zip(["env_state", "policy_state", "callback_state"], a)), "step_state")
                                               if len(a) == 3 and not k else fail(n, "step state form")),
            "@RolloutBuffer": Prim(lambda ex, n, a, k: Obj(k, "RolloutBuffer") if not a else fail(n, "RolloutBuffer form"))}


def _onstep_out(res, ex):
    if not (isinstance(res, tuple) and len(res) == 2 and isinstance(res[0], Obj) and isinstance(res[1], Obj)):
        raise TranslateError("step no longer returns (step state, buffer row)")
    st, row = res
    want = {"observations", "actions", "rewards", "dones", "log_probs", "values", "states", "action_masks"}
    if set(row.fields) != want:
        raise TranslateError(f"the buffer row has fields {sorted(row.fields)}")
    cb = st.fields["callback_state"]
    if not (isinstance(cb, Obj) and cb.name == "callback_result"):
        raise TranslateError("the callback state is not the result of callback.on_step")
    ctx = cb.fields["ctx"]
    if term_of(ctx.fields["state"]) != "cbs":
        raise TranslateError("the callback is not handed its own previous state")
    outs = [("env_state", "S", term_of(st.fields["env_state"])), ("policy_state", "PS", term_of(st.fields["policy_state"])),
            ("obs", "O", term_of(row.fields["observations"])), ("act", "Q", term_of(row.fields["actions"])),
            ("rew", "Q", term_of(row.fields["rewards"])), ("done", "bool", term_of(row.fields["dones"])),
            ("logp", "Q", term_of(row.fields["log_probs"])), ("val", "Q", term_of(row.fields["values"])),
            ("pstate", "PS", term_of(row.fields["states"])), ("mask", "option (list bool)", term_of(row.fields["action_masks"])),
            ("cb_done", "bool", term_of(ctx.fields["done"])), ("cb_reward", "Q", term_of(ctx.fields["reward"])),
            ("cb_key", "kpath", term_of(cb.fields["key"]))]
    return outs


# ------------------------------------------------------------------------------------------------ C05: off-policy step
def _offstep_bind():
    b = _onstep_bind()
    pol = acpol_obj("P")

    def call(ex, n, args, kwargs):
        if len(args) != 2 or set(kwargs) != {"key"}:
            fail(n, "behaviour policy call form")
        x = f"(p_act P {args[0].t} {args[1].t} {kwargs['key'].t} None)"
        return (Sc("O", f"(fst (fst (fst {x})))"), Sc("R", f"(snd (fst (fst {x})))"))
    pol.fields["__call__"] = Prim(call)
    names = ["observation", "next_observation", "action", "reward", "done", "timeout", "state", "next_state"]

    def add(ex, n, args, kwargs):
        if len(args) != 8 or kwargs:
            fail(n, "buffer.add call form")
        return Obj(dict(zip(names, args)), "added")
    b["policy"] = pol
    b["state"] = Obj({"env_state": O("es"), "policy_state": O("ps"), "callback_state": O("cbs"), "buffer": Obj({"add": Prim(add)}, "buffer")}, "step_state")
    b["self"] = Obj({}, "algo")
    b["@AbstractOffPolicyStepState"] = Prim(lambda ex, n, a, k: Obj(dict(zip(["env_state", "policy_state", "callback_state", "buffer"], a)), "step_state")
                                            if len(a) == 4 and not k else fail(n, "step state form"))
    return b


def _offstep_out(res, ex):
    if not (isinstance(res, Obj) and set(res.fields) == {"env_state", "policy_state", "callback_state", "buffer"}):
        raise TranslateError("step no longer returns the off-policy step state")
    cb, added = res.fields["callback_state"], res.fields["buffer"]
    if not (isinstance(cb, Obj) and cb.name == "callback_result" and isinstance(added, Obj) and added.name == "added"):
        raise TranslateError("the new buffer is not state.buffer.add(...) / the callback state is not callback.on_step(...)")
    ctx = cb.fields["ctx"]
    if term_of(ctx.fields["state"]) != "cbs":
        raise TranslateError("the callback is not handed its own previous state")
    f = added.fields
    return [("env_state", "S", term_of(res.fields["env_state"])), ("policy_state", "PS", term_of(res.fields["policy_state"])),
            ("obs", "O", term_of(f["observation"])), ("next_obs", "O", term_of(f["next_observation"])), ("act", "Q", term_of(f["action"])),
            ("rew", "Q", term_of(f["reward"])), ("done", "bool", term_of(f["done"])), ("timeout", "bool", term_of(f["timeout"])),
            ("ps", "PS", term_of(f["state"])), ("nps", "PS", term_of(f["next_state"])),
            ("cb_done", "bool", term_of(ctx.fields["done"])), ("cb_reward", "Q", term_of(ctx.fields["reward"])), ("cb_key", "kpath", term_of(cb.fields["key"]))]


# ------------------------------------------------------------------------------------------------ C04: collect_rollout (scan + post_collect)
def _method(path_rel, cls, name, self_obj):
    """the method `name` of class `cls` as found in the source under translation, bound to the symbolic self"""
    from .kernel import Method
    fn, _ = find_function(src_root() / path_rel, cls, name)
    return Method(Closure(fn, {}), self_obj)


def _collect_bind():
    b = _onstep_bind()
    selfo = Obj({"gamma": R("gamma"), "gae_lambda": R("lam"), "num_steps": Z("(Z.of_nat T)"),
                 "per_step": Prim(lambda ex, n, a, k: a[0] if len(a) == 1 and not k else fail(n, "per_step form"))}, "algo")
    scope = {k[1:]: v for k, v in b.items() if k.startswith("@")}
    for nm in ("step", "post_collect"):
        m = _method("algorithm/on_policy.py", "AbstractActorCriticOnPolicyAlgorithm", nm, selfo)
        m.closure.scope = scope
        selfo.fields[nm] = m

    def on_step(ex, n, args, kwargs):
        if len(args) != 1 or set(kwargs) != {"key"} or not isinstance(args[0], Obj):
            fail(n, "on_step call form")
        c = args[0].fields
        return Sc("O", f"(cb_step {c['state'].t} {c['done'].t} {c['reward'].t} {kwargs['key'].t})")
    out = {"self": selfo, "env": b["env"], "policy": b["policy"], "key": K("k"),
           "step_state": Obj({"env_state": O("es"), "policy_state": O("ps"), "callback_state": O("cbs")}, "step_state"),
           "callback": Obj({"on_step": Prim(on_step)}, "callback")}
    out.update({k: v for k, v in b.items() if k.startswith("@")})
    # the buffer row as it is scanned, and the GAE call at the end (compute_returns_and_advantages is the C03 kernel)
    out["@RolloutBuffer"] = Prim(lambda ex, n, a, k: Obj(dict(k, compute_returns_and_advantages=Static(None)), "RolloutBuffer") if not a else fail(n, "RolloutBuffer form"))
    return out


def _collect_out(res, ex):
    if not (isinstance(res, tuple) and len(res) == 2 and isinstance(res[0], Obj)):
        raise TranslateError("collect_rollout no longer returns (step state, buffer)")
    st, buf = res
    if not (isinstance(buf, Obj) and buf.name == "gae_call"):
        raise TranslateError("the returned buffer is not buffer.compute_returns_and_advantages(...) of the scanned rows")
    rows = buf.fields["rows"]
    outs = [("env_state", "S", term_of(st.fields["env_state"])), ("policy_state", "PS", term_of(st.fields["policy_state"])),
            ("last_value", "Q", term_of(buf.fields["last_value"], "R")), ("gae_lambda", "Q", term_of(buf.fields["gae_lambda"], "R")),
            ("gae_gamma", "Q", term_of(buf.fields["gamma"], "R"))]
    tys = {"observations": "list O", "actions": "list Q", "rewards": "list Q", "dones": "list bool", "log_probs": "list Q", "values": "list Q",
           "states": "list PS", "action_masks": "list (option (list bool))"}
    for f, ty in tys.items():
        outs.append((f, ty, term_of(rows.fields[f])))
    return outs


# ------------------------------------------------------------------------------------------------ C05: warm-up and collection scans
def _buffer_add(ex, n, recv, a, k):
    if len(a) != 8 or k:
        fail(n, "buffer.add call form")
    f = dict(zip(["t_obs", "t_next", "t_act", "t_rew", "t_done", "t_timeout", "t_ps", "t_nps"], [x.t for x in a]))
    rec = "{| " + "; ".join(f"{k_} := {v}" for k_, v in f.items()) + " |}"
    return Obj({"@name": Sc("O", f"(soa_add {recv.fields['@name'].t} {rec})")}, "buffer")


def _offscan_bind(count_field):
    b = _offstep_bind()
    selfo = Obj({count_field: Z("(Z.of_nat n)"), "per_step": Prim(lambda ex, n, a, k: a[0] if len(a) == 1 and not k else fail(n, "per_step form"))}, "algo")
    scope = {k[1:]: v for k, v in b.items() if k.startswith("@")}
    m = _method("algorithm/off_policy.py", "AbstractOffPolicyAlgorithm", "step", selfo)
    m.closure.scope = scope
    selfo.fields["step"] = m

    def on_step(ex, n, args, kwargs):
        if len(args) != 1 or set(kwargs) != {"key"} or not isinstance(args[0], Obj):
            fail(n, "on_step call form")
        c = args[0].fields
        return Sc("O", f"(cb_step {c['state'].t} {c['done'].t} {c['reward'].t} {kwargs['key'].t})")
    out = {"self": selfo, "env": b["env"], "policy": b["policy"], "key": K("k"),
           "step_state": Obj({"env_state": O("es"), "policy_state": O("ps"), "callback_state": O("cbs"),
                              "buffer": Obj({"@name": O("buf")}, "buffer")}, "step_state"),
           "callback": Obj({"on_step": Prim(on_step)}, "callback")}
    out.update({k: v for k, v in b.items() if k.startswith("@")})
    return out


def _offscan_out(res, ex):
    if not (isinstance(res, Obj) and set(res.fields) >= {"env_state", "policy_state", "buffer"}):
        raise TranslateError("the scan no longer returns the off-policy step state")
    return [("env_state", "S", term_of(res.fields["env_state"])), ("policy_state", "PS", term_of(res.fields["policy_state"])),
            ("buffer", "@obuf PS O", term_of(res.fields["buffer"].fields["@name"]))]


_OFFSCAN_PARAMS = ("{S PS O CB : Type} (n : nat) (E : env S Q O) (P : acpol PS Q O) (cb_step : CB -> bool -> Q -> kpath -> CB) "
                   "(es : S) (ps : PS) (cbs : CB) (buf : @obuf PS O) (k : kpath)")


# ------------------------------------------------------------------------------------------------ C11 / C12: iteration of on-policy learners
def _alg_state(fields):
    """an algorithm state object: its `next` and `with_callback_states` methods are the ones of AbstractAlgorithmState in the source"""
    o = Obj(dict(fields), "alg_state")
    for nm in ("next", "with_callback_states"):
        m = _method("algorithm/base_algorithm.py", "AbstractAlgorithmState", nm, o)
        m.closure.scope = {}
        o.fields[nm] = m
    return o


def _tree_at_state(ex, n, args, kwargs):
    """eqx.tree_at on an algorithm state: the result is again a state object with its methods bound to itself"""
    r = _tree_at(ex, n, args, kwargs)
    return _alg_state({k: v for k, v in r.fields.items() if not isinstance(v, Method)})


def _oniter_bind(vec=False):
    """vec=False: the learner as a whole (the step state of all environments is one value; N = 1 and N > 1 are both translated);
    vec=True: N > 1 parallel environments, the step state is the LIST of per-environment states and the vmapped call is a zip"""
    def collect1(ex, n, a, k):
        if len(a) != 5 or k:
            fail(n, "collect_rollout call form")
        x = f"(collect1 {a[1].t} {a[2].t} {a[4].t})"
        return (Sc("O", f"(fst {x})"), Sc("O", f"(snd {x})"))

    def vmapped(ex, n, a, k):
        want = "(None, None, eqx.if_array(0), None, 0)"
        got = ast.unparse([kw.value for kw in n.keywords if kw.arg == "in_axes"][0]) if any(kw.arg == "in_axes" for kw in n.keywords) else None
        if len(a) != 1 or got != want or not isinstance(a[0], Prim):
            fail(n, f"filter_vmap of collect_rollout with in_axes {got} (expected {want}: environment, policy and callback shared, step state and keys per environment)")

        def call(ex2, n2, a2, k2):
            if len(a2) != 5 or k2 or not (isinstance(a2[4], Vec) and a2[4].ety == "K"):
                fail(n2, "vmapped collect_rollout call form")
            if vec:
                # in_axes (None, None, 0, None, 0): environment i collects from ITS state with ITS key
                if not isinstance(a2[2], Vec):
                    fail(n2, "the step state is not per environment")
                x = f"(kzip2 (fun s__ k__ => collect1 {a2[1].t} s__ k__) {materialise(a2[2])} {materialise(a2[4])})"
                return (Vec.base(f"(map fst {x})", "O"), Vec.base(f"(map snd {x})", "O"))
            x = f"(collectN {a2[1].t} {a2[2].t} {materialise(a2[4])})"
            return (Sc("O", f"(fst {x})"), Sc("O", f"(snd {x})"))
        return Prim(call)

    def train(ex, n, a, k):
        if len(a) != 3 or set(k) != {"key"}:
            fail(n, "train call form")
        buf = materialise(a[2]) if isinstance(a[2], Vec) else a[2].t
        x = f"(train {a[0].t} {a[1].t} {buf} {k['key'].t})"
        return (Sc("O", f"(fst (fst {x}))"), Sc("O", f"(snd (fst {x}))"), Sc("O", f"(snd {x})"))

    def on_iteration(ex, n, a, k):
        if len(a) != 1 or set(k) != {"key"} or not isinstance(a[0], Obj):
            fail(n, "on_iteration call form")
        c = a[0].fields
        scb = materialise(c['step_state']) if isinstance(c['step_state'], Vec) else c['step_state'].t
        return Sc("O", f"(cb_iter {c['state'].t} {to_sc(c['iteration_count'], 'Z', n).t} {scb} {c['policy'].t} {c['opt_state'].t} {k['key'].t})")

    def iter_ctx(ex, n, a, k):
        names = ["state", "step_state", "env", "policy", "iteration_count", "opt_state", "training_log", "algorithm", "locals"]
        f = dict(zip(names, a)); f.update(k)
        if set(f) != set(names):
            fail(n, "IterationContext form")
        return Obj(f, "IterationContext")
    nenv = Z("(Z.of_nat N)")
    nenv.not_one = vec
    selfo = Obj({"num_envs": nenv, "collect_rollout": Prim(collect1), "train": Prim(train),
                 "per_iteration": Prim(lambda ex, n, a, k: a[0] if len(a) == 1 and not k else fail(n, "per_iteration form")), "@name": O("algo")}, "algo")
    state = _alg_state({"iteration_count": Z("cnt"), "step_state": vecO("ss") if vec else O("ss"), "env": O("env"), "policy": O("pol"), "opt_state": O("opt"),
                        "callback_state": O("cbs")})
    return {"self": selfo, "state": state, "key": K("k"), "callback": Obj({"on_iteration": Prim(on_iteration), "@name": O("cb")}, "callback"),
            "@IterationContext": Prim(iter_ctx), "@locals": Prim(lambda ex, n, a, k: Static("locals")),
            "@eqx.filter_vmap": Prim(vmapped), "@eqx.if_array": Prim(lambda ex, n, a, k: Static("if_array")), "@eqx.tree_at": Prim(_tree_at_state)}


def _dqniter_bind():
    b = _oniter_bind()

    def collect1(ex, n, a, k):
        if len(a) != 5 or k:
            fail(n, "collect_rollout call form")
        return Sc("O", f"(collect1 {a[1].t} {a[2].t} {a[4].t})")

    def vmapped(ex, n, a, k):
        want = "(None, None, eqx.if_array(0), None, 0)"
        got = ast.unparse([kw.value for kw in n.keywords if kw.arg == "in_axes"][0]) if any(kw.arg == "in_axes" for kw in n.keywords) else None
        if len(a) != 1 or got != want or not isinstance(a[0], Prim):
            fail(n, f"filter_vmap of collect_rollout with in_axes {got} (expected {want})")

        def call(ex2, n2, a2, k2):
            if len(a2) != 5 or k2 or not (isinstance(a2[4], Vec) and a2[4].ety == "K"):
                fail(n2, "vmapped collect_rollout call form")
            return Sc("O", f"(collectN {a2[1].t} {a2[2].t} {materialise(a2[4])})")
        return Prim(call)

    def dqn_train(ex, n, a, k):
        if len(a) != 4 or set(k) != {"key"}:
            fail(n, "dqn_train call form")
        x = f"(train {a[0].t} {a[1].t} {a[2].t} {a[3].t} {k['key'].t})"
        return (Sc("O", f"(fst (fst {x}))"), Sc("O", f"(snd (fst {x}))"), Sc("O", f"(snd {x})"))
    selfo = b["self"]
    selfo.fields["collect_rollout"] = Prim(collect1)
    selfo.fields["dqn_train"] = Prim(dqn_train)
    selfo.fields["target_update_interval"] = Z("(Z.of_nat interval)")
    selfo.fields["per_iteration"] = _method("algorithm/dqn.py", "DQN", "per_iteration", selfo)
    selfo.fields["per_iteration"].closure.scope = {"filter_cond": BUILTIN_COND}
    b["state"] = _alg_state({"iteration_count": Z("(Z.of_nat count)"), "step_state": O("ss"), "env": O("env"), "policy": O("pol"), "opt_state": O("opt"),
                             "callback_state": O("cbs"), "target_policy": O("target")})
    b["@eqx.filter_vmap"] = Prim(vmapped)
    return b


def _saciter_bind():
    b = _dqniter_bind()
    selfo = b["self"]

    def sac_train(ex, n, a, k):
        if len(a) != 12 or set(k) != {"key"}:
            fail(n, "sac_train call form")
        want = ["pol", "opt", None, "q1", "q2", "t1", "t2", "q_opt", "la", "alpha_opt", "tent", "(Z.of_nat count)"]
        got = [x.t if isinstance(x, Sc) else None for x in a]
        for i, (w, g) in enumerate(zip(want, got)):
            if w is not None and w != g:
                fail(n, f"sac_train argument {i} is {g}, expected {w}")
        if a[2].t != "(ss_buf " + _SACITER_SS + ")":
            fail(n, f"sac_train is not handed the buffer of the new step state: {a[2].t}")
        if k["key"].t != "(ks k 3 1)":
            fail(n, "sac_train is not handed the train key")
        return (O("pol'"), O("opt'"), R("q1'"), R("q2'"), O("q_opt'"), R("la'"), O("alpha_opt'"), O("log"))
    selfo.fields["sac_train"] = Prim(sac_train)
    selfo.fields["tau"] = R("tau")
    selfo.fields["per_iteration"] = _method("algorithm/sac.py", "SAC", "per_iteration", selfo)
    tree = ast.parse((src_root() / "algorithm/sac.py").read_text())
    scope = {}
    for node in tree.body:
        if isinstance(node, ast.FunctionDef) and node.name == "_soft_update_targets":
            scope[node.name] = Closure(node, scope)
    selfo.fields["per_iteration"].closure.scope = scope
    b["state"] = _alg_state({"iteration_count": Z("(Z.of_nat count)"), "step_state": O("ss"), "env": O("env"), "policy": O("pol"), "opt_state": O("opt"),
                             "callback_state": O("cbs"), "qf1": R("q1"), "qf2": R("q2"), "qf1_target": R("t1"), "qf2_target": R("t2"),
                             "q_opt_state": O("q_opt"), "log_alpha": R("la"), "alpha_opt_state": O("alpha_opt"), "target_entropy": R("tent")})
    for nm, v in _SCHED_PRIMS.items():
        if nm != "eqx.tree_at":
            b["@" + nm] = v
    return b


_SACITER_SS = "(if (Z.eqb (Z.of_nat N) (1)%Z) then (collect1 pol ss (ks k 3 0)) else (collectN pol ss (ksplit_keys (ks k 3 0) (Z.to_nat (Z.of_nat N)))))"


def _saciter_out(res, ex):
    if not (isinstance(res, Obj) and res.name == "alg_state"):
        raise TranslateError("iteration no longer returns the algorithm state")
    f = res.fields
    return [("count", "Z", term_of(f["iteration_count"], "Z")), ("policy", "X", term_of(f["policy"])), ("log_alpha", "R", term_of(f["log_alpha"], "R")),
            ("qf1", "R", term_of(f["qf1"], "R")), ("qf2", "R", term_of(f["qf2"], "R")),
            ("t1", "R", term_of(f["qf1_target"], "R")), ("t2", "R", term_of(f["qf2_target"], "R"))]


def _dqniter_out(res, ex):
    if not (isinstance(res, Obj) and res.name == "alg_state"):
        raise TranslateError("iteration no longer returns the algorithm state")
    f = res.fields
    return [("count", "Z", term_of(f["iteration_count"], "Z")), ("policy", "X", term_of(f["policy"])), ("target", "X", term_of(f["target_policy"])),
            ("step_state", "SS", term_of(f["step_state"]))]


def _oniter_out(res, ex):
    if not (isinstance(res, Obj) and res.name == "alg_state"):
        raise TranslateError("iteration no longer returns the algorithm state")
    f = res.fields
    if term_of(f["env"]) != "env":
        raise TranslateError("iteration changes the environment")
    return [("count", "Z", term_of(f["iteration_count"], "Z")), ("step_state", "SS", term_of(f["step_state"])),
            ("policy", "X", term_of(f["policy"])), ("opt_state", "OS", term_of(f["opt_state"])), ("callback_state", "CB", term_of(f["callback_state"]))]


_ONITER_PARAMS = ("{SS X OS BUF LOG CB SCB : Type} (N : nat) (collect1 : X -> SS -> kpath -> SS * BUF) (collectN : X -> SS -> list kpath -> SS * BUF) "
                  "(train : X -> OS -> BUF -> kpath -> X * OS * LOG) (ss_cb : SS -> SCB) (cb_iter : CB -> Z -> SCB -> X -> OS -> kpath -> CB) "
                  "(cnt : Z) (ss : SS) (pol : X) (opt : OS) (cbs : CB) (k : kpath)")


# ------------------------------------------------------------------------------------------------ C10: learn()
def _learn_state(term):
    """an algorithm state as ONE opaque value `term`: fields are projections, with_callback_states is a setter"""
    t = term

    def with_cb(ex, n, a, k):
        if len(a) != 1 or k or not isinstance(a[0], Sc):
            fail(n, "with_callback_states form")
        return _learn_state(f"(st_with_cb {t} {a[0].t})")
    return Obj({"@name": Sc("O", t), "callback_state": Sc("O", f"(st_cb {t})"), "policy": Sc("O", f"(st_pol {t})"),
                "iteration_count": Sc("O", f"(st_count {t})"), "opt_state": Sc("O", f"(st_opt {t})"),
                "step_state": Obj({"callback_state": Sc("O", f"(st_scb {t})"), "@name": Sc("O", f"(st_ss {t})")}, "step_state"),
                "with_callback_states": Prim(with_cb)}, "alg_state")


def _learn_bind():
    def reset(ex, n, a, k):
        if len(a) != 2 or set(k) != {"key", "callback"}:
            fail(n, "reset call form")
        return _learn_state(f"(a_reset {k['key'].t})")

    def iteration(ex, n, a, k):
        if len(a) != 1 or set(k) != {"key", "callback"} or not isinstance(a[0], Obj):
            fail(n, "iteration call form")
        return _learn_state(f"(a_iter {a[0].fields['@name'].t} {k['key'].t})")

    def tctx(ex, n, a, k):
        names = ["state", "step_state", "env", "policy", "total_timesteps", "iteration_count", "opt_state", "algorithm", "locals"]
        f = dict(zip(names, a)); f.update(k)
        if set(f) != set(names):
            fail(n, "TrainingContext form")
        return Obj(f, "TrainingContext")

    def cb(which):
        def f(ex, n, a, k):
            if a or set(k) != {"ctx", "key"}:
                fail(n, f"{which} call form")
            c = k["ctx"].fields
            return Sc("O", f"({which} {c['state'].t} {c['step_state'].t} {c['policy'].t} {k['key'].t})")
        return Prim(f)
    selfo = Obj({"num_envs": Z("N"), "num_steps": Z("T"), "reset": Prim(reset), "iteration": Prim(iteration),
                 "consolidate_callbacks": Prim(lambda ex, n, a, k: a[0] if len(a) == 1 and not k else fail(n, "consolidate_callbacks form")),
                 "@name": O("algo")}, "algo")
    selfo.fields["num_iterations"] = _method("algorithm/on_policy.py", "AbstractOnPolicyAlgorithm", "num_iterations", selfo)
    selfo.fields["num_iterations"].closure.scope = {}
    return {"self": selfo, "env": O("env"), "policy": O("pol0"), "total_timesteps": Z("total"), "key": K("k"),
            "callback": Obj({"on_training_start": cb("cb_start"), "on_training_end": cb("cb_end"), "@name": O("cb")}, "callback"),
            "@TrainingContext": Prim(tctx), "@locals": Prim(lambda ex, n, a, k: Static("locals"))}


def _p_filter_scan_state(ex, n, args, kwargs):
    """filter_scan(lambda s, k: (self.iteration(s, ...), None), state, keys) on an algorithm state that is ONE opaque value"""
    if len(args) != 3 or kwargs or not isinstance(args[0], Closure) or not (isinstance(args[2], Vec) and args[2].ety == "K"):
        fail(n, "filter_scan form")
    init = args[1]
    if not (isinstance(init, Obj) and init.name == "alg_state"):
        fail(n, "filter_scan over something else than the algorithm state")
    out = ex.invoke(args[0], [_learn_state("c__"), Sc("K", "k__")], {}, n)
    if not (isinstance(out, tuple) and len(out) == 2 and isinstance(out[0], Obj) and isinstance(out[1], Static) and out[1].v is None):
        fail(n, "scan body must return (state, None)")
    T = f"(fold_left (fun c__ k__ => {out[0].fields['@name'].t}) {materialise(args[2])} {init.fields['@name'].t})"
    return (_learn_state(T), Static(None))


# ------------------------------------------------------------------------------------------------ C12 / C05: off-policy reset, N > 1
def _offreset_bind():
    def vmap(ex, n, a, k):
        callee = ast.unparse(n.args[0]) if n.args else None
        axes = ast.unparse([kw.value for kw in n.keywords if kw.arg == "in_axes"][0]) if any(kw.arg == "in_axes" for kw in n.keywords) else None
        if callee == "AbstractOffPolicyStepState.initial" and axes == "(None, None, None, None, 0)":
            def call(ex2, n2, a2, k2):
                if len(a2) != 5 or k2 or not (isinstance(a2[4], Vec) and a2[4].ety == "K"):
                    fail(n2, "vmapped initial call form")
                size = to_sc(a2[0], "Z", n2)
                return Vec.base(f"(map (fun k__ => ss_init {size.t} k__) {materialise(a2[4])})", "O")
            return Prim(call)
        if callee == "self.collect_learning_starts" and axes == "(None, None, 0, None, 0)":
            def call(ex2, n2, a2, k2):
                if len(a2) != 5 or k2 or not (isinstance(a2[2], Vec) and isinstance(a2[4], Vec) and a2[4].ety == "K"):
                    fail(n2, "vmapped warm-up call form")
                return Vec.base(f"(kzip2 (fun s__ k__ => warm s__ k__) {materialise(a2[2])} {materialise(a2[4])})", "O")
            return Prim(call)
        fail(n, f"unexpected vmap: {callee} with in_axes {axes}")
    nenv = Z("(Z.of_nat N)")
    nenv.not_one = True
    selfo = Obj({"num_envs": nenv, "buffer_size": Z("(Z.of_nat B)"), "collect_learning_starts": Prim(lambda ex, n, a, k: fail(n, "unvmapped warm-up in the N > 1 kernel")),
                 "optimizer": Obj({"init": Prim(lambda ex, n, a, k: O("opt0"))}, "optimizer"), "@name": O("algo")}, "algo")
    return {"self": selfo, "env": O("env"), "policy": O("pol"), "key": K("k"),
            "callback": Obj({"reset": Prim(lambda ex, n, a, k: Sc("O", f"(cb_reset {k['key'].t})") if set(k) == {"key"} else fail(n, "callback.reset form")),
                             "@name": O("cb")}, "callback"),
            "@jax.vmap": Prim(vmap), "@ResetContext": Prim(lambda ex, n, a, k: Static("ctx")), "@locals": Prim(lambda ex, n, a, k: Static("locals")),
            "@eqx.filter": Prim(lambda ex, n, a, k: a[0]), "@eqx.is_inexact_array": Static("is_inexact_array"),
            "@AbstractOffPolicyStepState.initial": Prim(lambda ex, n, a, k: fail(n, "unvmapped initial in the N > 1 kernel")),
            "@AbstractOffPolicyState": Prim(lambda ex, n, a, k: Obj(dict(zip(["iteration_count", "step_state", "env", "policy", "opt_state", "callback_state"], a)), "alg_state")
                                            if len(a) == 6 and not k else fail(n, "AbstractOffPolicyState form"))}


def _offreset_out(res, ex):
    if not (isinstance(res, Obj) and res.name == "alg_state"):
        raise TranslateError("reset no longer returns the algorithm state")
    f = res.fields
    if term_of(f["policy"]) != "pol" or term_of(f["env"]) != "env":
        raise TranslateError("reset changes the policy or the environment")
    return [("count", "Z", term_of(f["iteration_count"], "Z")), ("step_states", "list SS", term_of(f["step_state"])),
            ("callback_state", "CB", term_of(f["callback_state"]))]


def _step_out(res, ex):
    if not (isinstance(res, tuple) and len(res) == 6):
        raise TranslateError("step no longer returns (state, observation, reward, terminal, truncate, info)")
    tys = [("state", "S"), ("observation", "O"), ("reward", "Q"), ("terminal", "bool"), ("truncate", "bool"), ("info", "Q")]
    return [(nm, ty, term_of(v)) for (nm, ty), v in zip(tys, res)]


def _reset_out(res, ex):
    if not (isinstance(res, tuple) and len(res) == 3):
        raise TranslateError("reset no longer returns (state, observation, info)")
    return [(nm, ty, term_of(v)) for (nm, ty), v in zip([("state", "S"), ("observation", "O"), ("info", "Q")], res)]


def _tl_self():
    return Obj({"env": env_obj("E"), "max_episode_steps": Z("n")}, "TimeLimit")


def _tl_state(c, s):
    return Obj({"step_count": Z(c), "env_state": O(s)}, "TimeLimitState")


def _tl_state_out(res, ex):
    if not (isinstance(res, Obj) and set(res.fields) == {"step_count", "env_state"}):
        raise TranslateError("not a TimeLimitState")
    return [("count", "Z", term_of(res.fields["step_count"], "Z")), ("env_state", "S", term_of(res.fields["env_state"]))]


_TL_PRIMS = {"TimeLimitState": ctor_prim("wrapper/misc.py", "TimeLimitState")}
_TL_PARAMS = "{S A O : Type} (E : env S A O) (n : Z)"


def _tl(name, func, bind, params, out):
    return Kernel(name, ["wrapper/misc.py", "wrapper/base_wrapper.py"], ["TimeLimit", "AbstractWrapper"], func, bind, _TL_PARAMS + params, out,
                  prims=_TL_PRIMS, carrier="Q")


def _aw_self():
    return Obj({"env": env_obj("E"), "func": Prim(lambda ex, n, a, k: Sc("O", f"(f {a[0].t})") if len(a) == 1 and not k else fail(n, "func call form"))},
               "ActionWrapper")


def _aw_state(s):
    return Obj({"env_state": O(s)}, "TransformActionState")


_AW_FILES = (["wrapper/transform_action.py", "wrapper/base_wrapper.py"], ["AbstractPureTransformActionWrapper", "AbstractWrapper"])
_AW_PRIMS = {"TransformActionState": ctor_prim("wrapper/transform_action.py", "TransformActionState")}
_AW_PARAMS = "{S A O : Type} (E : env S A O) (f : A -> A)"


def _aw(name, func, bind, params, out):
    return Kernel(name, _AW_FILES[0], _AW_FILES[1], func, bind, _AW_PARAMS + params, out, prims=_AW_PRIMS, carrier="Q")


def _aw_state_out(res, ex):
    if not (isinstance(res, Obj) and set(res.fields) == {"env_state"}):
        raise TranslateError("not a TransformActionState")
    return [("env_state", "S", term_of(res.fields["env_state"]))]


# ------------------------------------------------------------------------------------------------ C13: rescale_box (bounded component)
def _rescale_bind():
    return {"box": Obj({"low": R("lo"), "high": R("hi"), "shape": Static(())}, "Box"), "min": R("mn"), "max": R("mx")}


def _rescale_out(res, ex):
    if not (isinstance(res, tuple) and len(res) == 3 and isinstance(res[0], Obj) and isinstance(res[1], Closure) and isinstance(res[2], Closure)):
        raise TranslateError("rescale_box no longer returns (box, forward, backward)")
    fwd = ex.invoke(res[1], [R("x")], {}, res[1].node)
    bwd = ex.invoke(res[2], [R("x")], {}, res[2].node)
    return [("new_low", "Q", term_of(res[0].fields["low"], "R")), ("new_high", "Q", term_of(res[0].fields["high"], "R")),
            ("forward", "Q", term_of(fwd, "R")), ("backward", "Q", term_of(bwd, "R"))]


def pure_wrapper_kernels(prefix, file, cls, statecls, fname, fty, methods):
    """kernels for the methods of one of the `AbstractPure*Wrapper` classes: self.env is the record E, self.func the function `fname`"""
    files, clss = [file, "wrapper/base_wrapper.py"], [cls, "AbstractWrapper"]
    prims = {statecls: ctor_prim(file, statecls)}
    params = f"{{S A O : Type}} (E : env S A O) ({fname} : {fty})"

    def wself():
        def func(ex, n, a, k):
            if len(a) != 1 or k or not isinstance(a[0], Sc):
                fail(n, "func call form")
            return Sc("R" if a[0].ty == "R" else "O", f"({fname} {a[0].t})")
        return Obj({"env": env_obj("E"), "func": Prim(func)}, cls)

    def st(x):
        return Obj({"env_state": O(x)}, statecls)

    def state_out(res, ex):
        if not (isinstance(res, Obj) and set(res.fields) == {"env_state"}):
            raise TranslateError("not a wrapper state")
        return [("env_state", "S", term_of(res.fields["env_state"]))]

    def val(ty):
        return lambda res, ex: [("value", ty, term_of(res))]
    spec = {
        "initial": (lambda: {"self": wself(), "key": K("k")}, " (k : kpath)", state_out),
        "transition": (lambda: {"self": wself(), "state": st("s"), "action": O("a"), "key": K("k")}, " (s : S) (a : A) (k : kpath)", state_out),
        "observation": (lambda: {"self": wself(), "state": st("s"), "key": K("k")}, " (s : S) (k : kpath)", val("O")),
        "reward": (lambda: {"self": wself(), "state": st("s"), "action": O("a"), "next_state": st("s2"), "key": K("k")},
                   " (s : S) (a : A) (s2 : S) (k : kpath)", val("Q")),
        "terminal": (lambda: {"self": wself(), "state": st("s"), "key": K("k")}, " (s : S) (k : kpath)", val("bool")),
        "truncate": (lambda: {"self": wself(), "state": st("s")}, " (s : S)", val("bool")),
        "action_mask": (lambda: {"self": wself(), "state": st("s"), "key": K("k")}, " (s : S) (k : kpath)", val("option (list bool)")),
        "transition_info": (lambda: {"self": wself(), "state": st("s"), "action": O("a"), "next_state": st("s2")}, " (s : S) (a : A) (s2 : S)", val("Q")),
    }
    return [Kernel(f"{prefix}_{m}", files, clss, m, spec[m][0], params + spec[m][1], spec[m][2], prims=prims, carrier="Q") for m in methods]


_ALL_METHODS = ["initial", "transition", "observation", "reward", "terminal", "truncate", "action_mask", "transition_info"]

# ------------------------------------------------------------------------------------------------ C10: SAC update gating (sac_train)
def _sactrain_bind():
    """gradient / optimiser calls are ORACLES: each returns fresh opaque results named after the call site (their data flow is not
    modelled); what is translated is the control structure around them: which results are kept under which condition"""
    counter = {"apply": 0}

    def oracle(*names, types=None):
        def f(ex, n, args, kwargs):
            tys = types or ["O"] * len(names)
            out = tuple(Sc(t, nm) for nm, t in zip(names, tys))
            return out if len(out) > 1 else out[0]
        return Prim(f)

    def apply_updates(ex, n, args, kwargs):
        counter["apply"] += 1
        if counter["apply"] == 1:
            return (O("qf1'"), O("qf2'"))
        if counter["apply"] == 2:
            return O("policy'")
        fail(n, "unexpected eqx.apply_updates call")

    def sample(ex, n, args, kwargs):
        if len(args) != 1 or set(kwargs) != {"key"}:
            fail(n, "buffer.sample call form")
        return Obj({"observations": vecO("b_obs"), "next_observations": vecO("b_next"), "actions": vecO("b_act"), "rewards": vecR("b_rew"),
                    "dones": vecB("b_done"), "timeouts": vecB("b_timeout")}, "batch")
    tb = _sac_target_bind()
    return {"self": Obj({"batch_size": Z("B"), "gamma": R("gamma"), "policy_frequency": Z("(Z.of_nat freq)"), "autotune": B("autotune"),
                         "q_loss_grad": oracle("q_loss", "q_grads"), "q_optimizer": Obj({"update": oracle("q_updates", "q_opt'")}, "opt"),
                         "actor_loss_grad": oracle("a_loss", "a_grads"), "optimizer": Obj({"update": oracle("a_updates", "opt'")}, "opt"),
                         "alpha_loss_grad": oracle("al_loss", "al_grads"), "alpha_optimizer": Obj({"update": oracle("al_updates", "alpha_opt'")}, "opt")},
                        "SAC"),
            "policy": Obj({"action_and_log_prob": tb["@policy"].fields["action_and_log_prob"], "@name": O("policy")}, "policy"),
            "opt_state": O("opt"), "buffer": Obj({"sample": Prim(sample)}, "buffer"),
            "qf1": O("qf1"), "qf2": O("qf2"), "qf1_target": tb["@qf1_target"], "qf2_target": tb["@qf2_target"],
            "q_opt_state": O("q_opt"), "log_alpha": R("la"), "alpha_opt_state": O("alpha_opt"), "target_entropy": R("tent"),
            "iteration_count": Z("(Z.of_nat count)"), "key": K("k"),
            "@filter_cond": BUILTIN_COND, "@eqx.apply_updates": Prim(apply_updates), "@optax.apply_updates": oracle("la'", types=["R"]),
            "@eqx.filter": Prim(lambda ex, n, a, k: a[0]), "@eqx.is_inexact_array": Static("is_inexact_array"),
            "@optax.tree_utils.tree_get": oracle("lr")}


def _sactrain_out(res, ex):
    if not (isinstance(res, tuple) and len(res) == 8):
        raise TranslateError("sac_train no longer returns its eight results")

    def t(v):
        if isinstance(v, Obj) and "@name" in v.fields:
            return v.fields["@name"].t
        return term_of(v)

    def sel(v):      # select on policy objects: the executor merges Obj fields; recover the @name field
        return t(v)
    names = ["policy", "opt_state", "qf1", "qf2", "q_opt_state", "log_alpha", "alpha_opt_state"]
    tys = ["X", "X", "X", "X", "X", "R", "X"]
    return [(nm, ty, sel(v)) for nm, ty, v in zip(names, tys, res[:7])]


# ------------------------------------------------------------------------------------------------ C20: gait (per-foot view)
def _p_fmod(ex, n, args, kwargs):
    if len(args) != 2 or kwargs:
        fail(n, "fmod form")
    return lift(lambda a, b: Sc("R", f"(fmodR {to_sc(a, 'R', n).t} {to_sc(b, 'R', n).t})"), args, n)


def _gait_init_out(res, ex):
    if not (isinstance(res, (list, tuple)) and len(res) == 2):
        raise TranslateError("initial_gait_phase no longer returns the two phases")
    return [("left", "R", term_of(res[0], "R")), ("right", "R", term_of(res[1], "R"))]


_GAIT = "env/unitree/g1/gait.py"

# ------------------------------------------------------------------------------------------------ C18: where serialize writes
def _serialize_bind():
    written = []

    def path_obj(nm):
        """a pathlib.Path whose file name is the component list `nm` of Serial.v (directory part untouched)"""
        suffix = Obj({"__eq__": Prim(lambda ex, n, a, k: Sc("B", f"(has_eqx {nm})") if len(a) == 1 and isinstance(a[0], Static) and a[0].v == ".eqx"
                                     else fail(n, "suffix compared with something else than '.eqx'"))}, "suffix")
        name = Obj({"__add__": Prim(lambda ex, n, a, k: Sc("O", f"({nm} ++ [eqx])") if len(a) == 1 and isinstance(a[0], Static) and a[0].v == ".eqx"
                                    else fail(n, "something else than '.eqx' is appended"))}, "name")
        # exists() is answered "no": mkdir(parents=True, exist_ok=True) is then always requested, which is a no-op on an existing directory
        parent = Obj({"exists": Prim(lambda ex, n, a, k: Static(False)),
                      "mkdir": Prim(lambda ex, n, a, k: Static(None) if isinstance(k.get("parents"), Sc) and k["parents"].t == "true"
                                    and isinstance(k.get("exist_ok"), Sc) and k["exist_ok"].t == "true" else fail(n, "mkdir without parents=True, exist_ok=True"))}, "parent")
        return Obj({"suffix": suffix, "name": name, "parent": parent, "@name": Sc("O", nm), "@rebuild": path_obj,
                    "with_name": Prim(lambda ex, n, a, k: path_obj(a[0].t) if len(a) == 1 and isinstance(a[0], Sc) else fail(n, "with_name form"))}, "Path")

    def write(ex, n, a, k):
        if len(a) != 2 or k or not (isinstance(a[0], Obj) and a[0].name == "Path"):
            fail(n, "tree_serialise_leaves call form")
        written.append(a[0].fields["@name"])
        return Static(None)
    return {"self": O("model"), "path": O("nm"), "no_suffix": B("no_suffix"), "@Path": Prim(lambda ex, n, a, k: path_obj(a[0].t)),
            "@eqx.tree_serialise_leaves": Prim(write), "@@written": written}


# ------------------------------------------------------------------------------------------------ C09: PPO.train / train_epoch
def _ppotrain_bind():
    def flat_obj(term):
        def batch_indices(ex, n, a, k):
            if len(a) != 1 or set(k) != {"key"} or a[0].t != "(Z.of_nat B)":
                fail(n, "batch_indices is not called with the learner's batch size and a key")
            return Vec.base(f"(batch_indices B (perm {k['key'].t} (soa_len {term})))", "O")

        def gather(ex, n, a, k):
            if len(a) != 1 or k or not isinstance(a[0], Sc):
                fail(n, "gather call form")
            return Sc("O", f"(gather_soa d {term} {a[0].t})")
        return Obj({"batch_indices": Prim(batch_indices), "gather": Prim(gather), "@name": O(term)}, "flat_buffer")
    buf = Obj({"flatten_axes": Prim(lambda ex, n, a, k: flat_obj("(flatten_soa buf)") if not a and not k else fail(n, "flatten_axes with arguments")),
               "returns": O("rets"), "values": O("vals"), "@name": O("buf")}, "rollout_buffer")

    def train_batch(ex, n, a, k):
        if len(a) != 3 or k:
            fail(n, "train_batch call form")
        x = f"(step ({a[0].t}, {a[1].t}) {a[2].t})"
        return (Sc("O", f"(fst {x})"), Sc("O", f"(snd {x})"), Static(None))
    stats = Obj({f: O("stat") for f in ("approx_kl", "total_loss", "policy_loss", "value_loss", "entropy_loss")}, "stats")
    selfo = Obj({"num_epochs": Z("(Z.of_nat E)"), "batch_size": Z("(Z.of_nat B)"), "train_batch": Prim(train_batch),
                 "explained_variance": Prim(lambda ex, n, a, k: O("ev"))}, "PPO")
    m = _method("algorithm/ppo.py", "PPO", "train_epoch", selfo)
    m.closure.scope = {}
    selfo.fields["train_epoch"] = m
    return {"self": selfo, "policy": O("pol"), "opt_state": O("opt"), "buffer": buf, "key": K("k"),
            "@jax.tree.map": Prim(lambda ex, n, a, k: stats)}


# ------------------------------------------------------------------------------------------------ C14: membership tests (per component)
_SP_PRIMS = {"try_cast": Prim(lambda ex, n, a, k: a[0])}

# ------------------------------------------------------------------------------------------------ C19: LoggingCallback.on_iteration
def _oniterlog_bind():
    emitted = []

    def wrapper(ex, n, a, k):
        if len(a) != 1 or not isinstance(a[0], Prim):
            fail(n, "callback_with_numpy_wrapper form")
        if not (isinstance(k.get("ordered"), Sc) and k["ordered"].t == "true"):
            fail(n, "the log records are not emitted in order (ordered=True)")
        return a[0]

    def log_scalars(ex, n, a, k):
        if len(a) != 2 or k or not isinstance(a[0], dict):
            fail(n, "log_scalars call form")
        emitted.append((dict(a[0]), a[1]))
        return Static(None)
    backend = Obj({"log_scalars": Prim(log_scalars)}, "backend")
    ctx = Obj({"training_log": {"loss": O("loss")}, "opt_state": O("opt"), "state": O("cbs"), "env": O("env"), "policy": O("pol"),
               "iteration_count": Z("cnt"),
               "step_state": Obj({"step": Vec.base("(map l_step sts)", "Z"), "average_return": vecR("(map l_avg_ret sts)"),
                                  "average_length": vecR("(map l_avg_len sts)")}, "LoggingCallbackStepState")}, "IterationContext")
    return {"self": Obj({"_backends": [backend], "_record_video_fn": Static(None)}, "LoggingCallback"), "ctx": ctx, "key": K("k"),
            "@optax.tree_utils.tree_get": Prim(lambda ex, n, a, k: O("lr")), "@callback_with_numpy_wrapper": Prim(wrapper), "@@emitted": emitted}


def _oniterlog_out(res, ex):
    return []       # filled by translate(): the emitted record is read from the bindings (see Kernel.post)


# ------------------------------------------------------------------------------------------------ C19: evaluation helper rollout_scan
def _rscan_bind():
    pol = acpol_obj("P")

    def call(ex, n, args, kwargs):
        if len(args) != 2 or set(kwargs) - {"key"}:
            fail(n, "policy call form")
        kk = kwargs["key"].t if "key" in kwargs else "nil"
        x = f"(p_act P {args[0].t} {args[1].t} {kk} None)"
        return (Sc("O", f"(fst (fst (fst {x})))"), Sc("R", f"(snd (fst (fst {x})))"))
    pol.fields["__call__"] = Prim(call)
    return {"env": env_obj("E"), "policy": pol, "key": K("k"), "deterministic": B("det"), "max_steps": Z("(Z.of_nat max_steps)")}


KERNELS = {
    "C18": [Kernel("serialize", "utils.py", "Serializable", "serialize", _serialize_bind, "(nm : name) (no_suffix : bool)",
                   lambda res, ex: [])],
    "C14": [Kernel("discrete_contains", "space/discrete.py", "Discrete", "contains", lambda: {"self": Obj({"n": Z("n")}, "Discrete"), "x": R("x")},
                   "(n : Z) (x : Q)", lambda res, ex: [("value", "bool", term_of(res))], prims=_SP_PRIMS, carrier="Q"),
            Kernel("box_contains", "space/box.py", "Box", "contains",
                   lambda: {"self": Obj({"low": R("lo"), "high": R("hi"), "shape": Static(())}, "Box"), "x": R("x")},
                   "(lo hi x : Q)", lambda res, ex: [("value", "bool", term_of(res))], prims=_SP_PRIMS, carrier="Q"),
            Kernel("multidiscrete_contains", "space/multi_discrete.py", "MultiDiscrete", "contains",
                   lambda: {"self": Obj({"nvec": Z("n"), "shape": Static(())}, "MultiDiscrete"), "x": R("x")},
                   "(n : Z) (x : Q)", lambda res, ex: [("value", "bool", term_of(res))], prims=_SP_PRIMS, carrier="Q")],
    "C09": [Kernel("batch_indices", "buffer/base_buffer.py", "AbstractBuffer", "batch_indices",
                   lambda: {"self": Obj({"shape": (Z("(Z.of_nat (length perm))"),)}, "buffer"), "batch_size": Z("(Z.of_nat B)"), "key": K("k"),
                            "@jr.permutation": Prim(lambda ex, n, a, k: Vec.base("perm", "Z") if len(a) == 2 and not k and isinstance(a[0], Sc) and a[0].ty == "K"
                                                    and a[1].t == "(Z.of_nat (length perm))" else fail(n, "permutation call form"))},
                   "(B : nat) (perm : list nat) (k : kpath)", lambda res, ex: [("rows", "list (list nat)", term_of(res))]),
            Kernel("ppotrain", "algorithm/ppo.py", "PPO", "train", _ppotrain_bind,
                   "{X OS A ST : Type} (stat : ST) (perm : kpath -> nat -> list nat) (step : X * OS -> soa A -> X * OS) (d : A) (B E : nat) (buf : soa2 A) (pol : X) (opt : OS) (k : kpath)",
                   lambda res, ex: [("policy", "X", term_of(res[0])), ("opt_state", "OS", term_of(res[1]))])],
    "C12": [Kernel("oniterN", "algorithm/on_policy.py", "AbstractOnPolicyAlgorithm", "iteration", lambda: _oniter_bind(vec=True),
                   "{SS X OS BUF LOG CB SCB : Type} (N : nat) (collect1 : X -> SS -> kpath -> SS * BUF) "
                   "(train : X -> OS -> list BUF -> kpath -> X * OS * LOG) (ss_cb : list SS -> SCB) (cb_iter : CB -> Z -> SCB -> X -> OS -> kpath -> CB) "
                   "(cnt : Z) (ss : list SS) (pol : X) (opt : OS) (cbs : CB) (k : kpath)",
                   lambda res, ex: [("step_states", "list SS", term_of(res.fields["step_state"])), ("policy", "X", term_of(res.fields["policy"]))],
                   opaque_attrs={"callback_state": "ss_cb"}),
            Kernel("offresetN", "algorithm/off_policy.py", "AbstractOffPolicyAlgorithm", "reset", _offreset_bind,
                   "{SS CB : Type} (N B : nat) (ss_init : Z -> kpath -> SS) (warm : SS -> kpath -> SS) (cb_reset : kpath -> CB) (k : kpath)",
                   _offreset_out)],
    "C11": [Kernel("oniter", "algorithm/on_policy.py", "AbstractOnPolicyAlgorithm", "iteration", _oniter_bind, _ONITER_PARAMS, _oniter_out,
                   opaque_attrs={"callback_state": "ss_cb"})],
    "C20": [Kernel("gait_initial", _GAIT, None, "initial_gait_phase", lambda: {}, "(u : unit)", _gait_init_out),
            Kernel("gait_advance", _GAIT, None, "advance_gait_phase", lambda: {"phase": R("ph"), "frequency": R("f"), "dt": R("dt")},
                   "(ph f dt : R)", lambda res, ex: [("value", "R", term_of(res, "R"))], prims={"jnp.fmod": Prim(_p_fmod)}),
            Kernel("gait_height", _GAIT, None, "desired_foot_height", lambda: {"phase": R("ph"), "swing_height": R("h")},
                   "(ph h : R)", lambda res, ex: [("value", "R", term_of(res, "R"))])],
    "C04": [Kernel("onstep", "algorithm/on_policy.py", "AbstractActorCriticOnPolicyAlgorithm", "step", _onstep_bind,
                   "{S PS O CB : Type} (gamma : Q) (E : env S Q O) (P : acpol PS Q O) (es : S) (ps : PS) (cbs : CB) (k : kpath)",
                   _onstep_out, carrier="Q", prims={"jnp.clip": Prim(_p_clip_space)}),
            Kernel("collect", "algorithm/on_policy.py", "AbstractOnPolicyAlgorithm", "collect_rollout", _collect_bind,
                   "{S PS O CB : Type} (gamma lam : Q) (T : nat) (E : env S Q O) (P : acpol PS Q O) (cb_step : CB -> bool -> Q -> kpath -> CB) (es : S) (ps : PS) (cbs : CB) (k : kpath)",
                   _collect_out, carrier="Q", prims={"jnp.clip": Prim(_p_clip_space)},
                   obj_methods={"RolloutBuffer": {"compute_returns_and_advantages": lambda ex, n, recv, a, k: Obj(
                       {"rows": recv, "last_value": a[0], "gae_lambda": a[1], "gamma": a[2]}, "gae_call") if len(a) == 3 and not k else fail(n, "GAE call form")}})],
    "C05": [Kernel("offstep", "algorithm/off_policy.py", "AbstractOffPolicyAlgorithm", "step", _offstep_bind,
                   "{S PS O CB : Type} (E : env S Q O) (P : acpol PS Q O) (es : S) (ps : PS) (cbs : CB) (k : kpath)",
                   _offstep_out, carrier="Q", prims={"jnp.clip": Prim(_p_clip_space)}),
            Kernel("offwarm", "algorithm/off_policy.py", "AbstractOffPolicyAlgorithm", "collect_learning_starts", lambda: _offscan_bind("learning_starts"),
                   _OFFSCAN_PARAMS, _offscan_out, carrier="Q", prims={"jnp.clip": Prim(_p_clip_space)}, obj_methods={"buffer": {"add": _buffer_add}}),
            Kernel("offcollect", "algorithm/off_policy.py", "AbstractOffPolicyAlgorithm", "collect_rollout", lambda: _offscan_bind("num_steps"),
                   _OFFSCAN_PARAMS, _offscan_out, carrier="Q", prims={"jnp.clip": Prim(_p_clip_space)}, obj_methods={"buffer": {"add": _buffer_add}})],
    "C01": [Kernel("step", "env/base_env.py", "AbstractEnvLike", "step",
                   lambda: {"self": env_obj("E"), "state": O("s"), "action": O("a"), "key": K("k")},
                   "{S A O : Type} (E : env S A O) (s : S) (a : A) (k : kpath)", _step_out, carrier="Q"),
            Kernel("reset", "env/base_env.py", "AbstractEnvLike", "reset", lambda: {"self": env_obj("E"), "key": K("k")},
                   "{S A O : Type} (E : env S A O) (k : kpath)", _reset_out, carrier="Q")],
    "C13": [_tl("tl_initial", "initial", lambda: {"self": _tl_self(), "key": K("k")}, " (k : kpath)", _tl_state_out),
            _tl("tl_transition", "transition", lambda: {"self": _tl_self(), "state": _tl_state("c", "si"), "action": O("a"), "key": K("k")},
                " (c : Z) (si : S) (a : A) (k : kpath)", _tl_state_out),
            _tl("tl_truncate", "truncate", lambda: {"self": _tl_self(), "state": _tl_state("c", "si")}, " (c : Z) (si : S)",
                lambda res, ex: [("value", "bool", term_of(res))]),
            _tl("tl_observation", "observation", lambda: {"self": _tl_self(), "state": _tl_state("c", "si"), "key": K("k")},
                " (c : Z) (si : S) (k : kpath)", lambda res, ex: [("value", "O", term_of(res))]),
            _tl("tl_reward", "reward", lambda: {"self": _tl_self(), "state": _tl_state("c", "si"), "action": O("a"),
                                                "next_state": _tl_state("c2", "si2"), "key": K("k")},
                " (c : Z) (si : S) (a : A) (c2 : Z) (si2 : S) (k : kpath)", lambda res, ex: [("value", "Q", term_of(res))]),
            _tl("tl_terminal", "terminal", lambda: {"self": _tl_self(), "state": _tl_state("c", "si"), "key": K("k")},
                " (c : Z) (si : S) (k : kpath)", lambda res, ex: [("value", "bool", term_of(res))]),
            _tl("tl_action_mask", "action_mask", lambda: {"self": _tl_self(), "state": _tl_state("c", "si"), "key": K("k")},
                " (c : Z) (si : S) (k : kpath)", lambda res, ex: [("value", "option (list bool)", term_of(res))]),
            _aw("aw_transition", "transition", lambda: {"self": _aw_self(), "state": _aw_state("s"), "action": O("a"), "key": K("k")},
                " (s : S) (a : A) (k : kpath)", _aw_state_out),
            _aw("aw_reward", "reward", lambda: {"self": _aw_self(), "state": _aw_state("s"), "action": O("a"), "next_state": _aw_state("s2"), "key": K("k")},
                " (s : S) (a : A) (s2 : S) (k : kpath)", lambda res, ex: [("value", "Q", term_of(res))]),
            _aw("aw_transition_info", "transition_info", lambda: {"self": _aw_self(), "state": _aw_state("s"), "action": O("a"), "next_state": _aw_state("s2")},
                " (s : S) (a : A) (s2 : S)", lambda res, ex: [("value", "Q", term_of(res))]),
            _aw("aw_truncate", "truncate", lambda: {"self": _aw_self(), "state": _aw_state("s")}, " (s : S)",
                lambda res, ex: [("value", "bool", term_of(res))]),
            _aw("aw_terminal", "terminal", lambda: {"self": _aw_self(), "state": _aw_state("s"), "key": K("k")}, " (s : S) (k : kpath)",
                lambda res, ex: [("value", "bool", term_of(res))]),
            *pure_wrapper_kernels("ow", "wrapper/transform_observation.py", "AbstractPureObservationWrapper", "PureObservationState", "g", "O -> O", _ALL_METHODS),
            *pure_wrapper_kernels("rw", "wrapper/transform_reward.py", "AbstractPureTransformRewardWrapper", "PureTransformRewardState", "h", "Q -> Q", _ALL_METHODS),
            Kernel("rescale", "wrapper/utils.py", None, "rescale_box", _rescale_bind, "(lo hi mn mx x : Q)", _rescale_out, carrier="Q",
                   prims={"Box": Prim(lambda ex, n, a, k: Obj(k, "Box") if not a and set(k) == {"low", "high", "shape"} else fail(n, "Box form")),
                          "RescaleResult": Prim(lambda ex, n, a, k: tuple(a) if len(a) == 3 and not k else fail(n, "RescaleResult form"))}),
            _tl("tl_transition_info", "transition_info", lambda: {"self": _tl_self(), "state": _tl_state("c", "si"), "action": O("a"),
                                                                  "next_state": _tl_state("c2", "si2")},
                " (c : Z) (si : S) (a : A) (c2 : Z) (si2 : S)", lambda res, ex: [("value", "Q", term_of(res))])],
    "C10": [Kernel("on_num_iterations", "algorithm/on_policy.py", "AbstractOnPolicyAlgorithm", "num_iterations", _numit_bind,
                   "(total N T : Z)", lambda res, ex: [("value", "Z", term_of(res, "Z"))]),
            Kernel("off_num_iterations", "algorithm/off_policy.py", "AbstractOffPolicyAlgorithm", "num_iterations", _numit_bind,
                   "(total N T : Z)", lambda res, ex: [("value", "Z", term_of(res, "Z"))]),
            Kernel("dqn_per_iteration", "algorithm/dqn.py", "DQN", "per_iteration", _dqn_periter_bind,
                   "{X : Type} (interval count : nat) (online target : X)", _dqn_periter_out, prims=_SCHED_PRIMS),
            Kernel("polyak", "algorithm/sac.py", None, "_soft_update_targets", _polyak_bind,
                   "(tau q1 t1 q2 t2 : R)", _polyak_out, prims=_SCHED_PRIMS),
            Kernel("learn", "algorithm/base_algorithm.py", "AbstractAlgorithm", "learn", _learn_bind,
                   "{ST X CB SCB : Type} (a_reset : kpath -> ST) (a_iter : ST -> kpath -> ST) (st_with_cb : ST -> CB -> ST) (st_cb : ST -> CB) (st_scb : ST -> SCB) "
                   "(st_pol : ST -> X) (cb_start cb_end : CB -> SCB -> X -> kpath -> CB) (N T total : Z) (k : kpath)",
                   lambda res, ex: [("policy", "X", term_of(res))], prims={"filter_scan": Prim(_p_filter_scan_state)}),
            Kernel("dqniter", "algorithm/dqn.py", "DQN", "iteration", _dqniter_bind,
                   "{SS X OS BUF LOG CB SCB : Type} (N interval count : nat) (collect1 : X -> SS -> kpath -> SS) (collectN : X -> SS -> list kpath -> SS) "
                   "(ss_buf : SS -> BUF) (ss_cb : SS -> SCB) (train : X -> OS -> BUF -> X -> kpath -> X * OS * LOG) (cb_iter : CB -> Z -> SCB -> X -> OS -> kpath -> CB) "
                   "(ss : SS) (pol target : X) (opt : OS) (cbs : CB) (k : kpath)",
                   _dqniter_out, opaque_attrs={"callback_state": "ss_cb", "buffer": "ss_buf"}),
            Kernel("saciter", "algorithm/sac.py", "SAC", "iteration", _saciter_bind,
                   "{SS X OS BUF CB SCB : Type} (N count : nat) (collect1 : X -> SS -> kpath -> SS) (collectN : X -> SS -> list kpath -> SS) "
                   "(ss_buf : SS -> BUF) (ss_cb : SS -> SCB) (cb_iter : CB -> Z -> SCB -> X -> OS -> kpath -> CB) "
                   "(ss : SS) (pol pol' : X) (opt opt' : OS) (cbs : CB) (tau q1 q1' q2 q2' t1 t2 la la' : R) (k : kpath)",
                   _saciter_out, opaque_attrs={"callback_state": "ss_cb", "buffer": "ss_buf"}),
            Kernel("sactrain", "algorithm/sac.py", "SAC", "sac_train", _sactrain_bind,
                   "{X : Type} (autotune : bool) (freq count : nat) (policy policy' opt opt' qf1 qf1' qf2 qf2' q_opt q_opt' alpha_opt alpha_opt' : X) (la la' : R)",
                   _sactrain_out)],
    "C08": [Kernel("ppo", "algorithm/ppo.py", "PPO", "ppo_loss", _ppo_bind,
                   "(normalize clip_vf : bool) (eps cv ce : R) (values log_probs entropy old_log_probs advs old_values returns : list R)",
                   _ppo_out,
                   prims={"jnp.std": Prim(_p_std), "PPOStats": Prim(lambda ex, n, a, k: tuple(a) if not k else fail(n, "PPOStats keywords")),
                          "jnp.finfo": Prim(lambda ex, n, a, k: Obj({"eps": R("feps")}, "finfo"))},
                   variables=("(std : list R -> R)", "(feps : R)"))],
    "C07": [Kernel("dqn", "algorithm/dqn.py", "DQN", "dqn_loss", _dqn_bind,
                   "(states obs next_states next_obs : list Xs) (actions : list Z) (rewards : list R) (dones timeouts : list bool) (gamma : R)",
                   lambda res, ex: [("loss", "R", term_of(res, "R"))],
                   variables=("(Pol Xs : Type)", "(online target : Pol)", "(qv : Pol -> list Xs -> list Xs -> list (list R))")),
            Kernel("sac", "algorithm/sac.py", "SAC", "sac_train/compute_target", _sac_target_bind,
                   "(gamma alpha : R) (next_obs : Ob) (reward : R) (done timeout : bool) (key : Key)",
                   lambda res, ex: [("target", "R", term_of(res, "R"))],
                   variables=("(Ob Act Key : Type)", "(pi_act : Ob -> Key -> Act)", "(pi_logp : Ob -> Key -> R)", "(q1t q2t : Ob -> Act -> R)"))],
    "C06": [Kernel("add", "buffer/replay.py", "ReplayBuffer", "add", _rb_add_bind,
                   "{Ob Ac Ps : Type} (b : @soa Ob Ac Ps) (x : @trow Ob Ac Ps)", _rb_add_out, carrier="Q",
                   prims={"eqx.tree_at": Prim(_tree_at)}),
            Kernel("current_size", "buffer/replay.py", "ReplayBuffer", "current_size", lambda: {"self": _rb_self()},
                   "{Ob Ac Ps : Type} (b : @soa Ob Ac Ps)", _rb_cs_out, carrier="Q"),
            Kernel("sample", "buffer/replay.py", "ReplayBuffer", "sample", _rb_sample_bind,
                   "{Ob Ac Ps : Type} (b : @soa Ob Ac Ps) (batch : nat) (k : kpath)", _rb_sample_out, carrier="Q")],
    "C19": [Kernel("oniterlog", "callback/logging/callback.py", "LoggingCallback", "on_iteration", _oniterlog_bind,
                   "(sts : list lstate)", _oniterlog_out, carrier="Q"),
            Kernel("rscan", "benchmark/__init__.py", None, "rollout_scan", _rscan_bind,
                   "{S PS O : Type} (E : env S Q O) (P : acpol PS Q O) (det : bool) (max_steps : nat) (k : kpath)",
                   lambda res, ex: [("value", "Q", term_of(res, "R"))], carrier="Q"),
            Kernel("lnext", "callback/logging/callback.py", "LoggingCallbackStepState", "next", _lnext_bind,
                   "(alpha : Q) (s : lstate) (r : Q) (d : bool)", _lnext_out, carrier="Q",
                   prims={"LoggingCallbackStepState": ctor_prim("callback/logging/callback.py", "LoggingCallbackStepState")})],
    "C03": [Kernel("gae", "buffer/rollout.py", "RolloutBuffer", "compute_returns_and_advantages", _gae_bind,
                   "(gam lam last : R) (rewards values : list R) (dones : list bool)", _gae_out,
                   prims={"eqx.tree_at": Prim(_tree_at)})],
}


# ------------------------------------------------------------------------------------------------ driver
def translate(pid):
    """[(kernel, sha, [(suffix, type, term)])]"""
    out = []
    for k in KERNELS[pid]:
        files = k.file if isinstance(k.file, (list, tuple)) else [k.file]
        clss = k.cls if isinstance(k.cls, (list, tuple)) else [k.cls] * len(files)
        try:
            fn = None
            for f_, c_ in zip(files, clss):      # the class itself first, then its base classes (method resolution order)
                path = src_root() / f_
                try:
                    fn, sha = find_function(path, c_, k.func)
                    break
                except TranslateError as e_:
                    err = e_
            if fn is None:
                raise err
            set_carrier(k.carrier)
            ex = Executor(prims=k.prims)
            ex.obj_methods = k.obj_methods
            ex.opaque_attrs = k.opaque_attrs
            scope = {}
            if k.module_funcs:
                tree = ast.parse(path.read_text())
                for node in tree.body:
                    if isinstance(node, ast.FunctionDef) and node.name in k.module_funcs:
                        scope[node.name] = Closure(node, scope)
            b = k.bindings()
            scope.update({nm[1:]: v for nm, v in b.items() if nm.startswith("@") and "." not in nm})
            ex.prims.update({nm[1:]: v for nm, v in b.items() if nm.startswith("@") and "." in nm})
            res = run_function(ex, fn, {kk: vv for kk, vv in b.items() if not kk.startswith("@@")}, scope)
            outs = k.outputs(res, ex)
            if "@@written" in b:       # the file name handed to eqx.tree_serialise_leaves
                if len(b["@@written"]) != 1:
                    raise TranslateError("serialize does not write exactly one file")
                outs = [("written_name", "name", b["@@written"][0].t)]
            if "@@emitted" in b:       # side effects recorded by the oracles of the specification (log records handed to a backend)
                em = b["@@emitted"]
                if len(em) != 1 or term_of(res) != "cbs":
                    raise TranslateError("on_iteration does not emit exactly one record per backend and return its state unchanged")
                scal, step = em[0]
                for want in ("episode/return", "episode/length"):
                    if want not in scal:
                        raise TranslateError(f"the record lacks {want}")
                outs = [("step", "Z", term_of(step, "Z")), ("episode_return", "Q", term_of(scal["episode/return"], "R")),
                        ("episode_length", "Q", term_of(scal["episode/length"], "R"))]
            out.append((k, sha, outs))
        except TranslateError as e:
            raise TranslateError(f"{k.file}:{k.cls}.{k.func}: {e}") from e
    return out


HEADER = """(* GENERATED by harness/translate/kernels.py from the lerax source.  DO NOT EDIT: the {pid} check regenerates this
   file on every run and re-checks coq/link/{pid}_link.v against it. *)
From Coq Require Import Reals List ZArith QArith Qminmax Qround Bool.
From Lerax Require Import KBase{imports}.
Import ListNotations.
"""


def coq_text(pid, imports=()):
    parts = [HEADER.format(pid=pid, imports="".join(" " + i for i in imports))]
    for k, sha, outs in translate(pid):
        parts.append(f"(* {k.file} :: {k.cls}.{k.func}   (sha256 of the file {sha}) *)")
        binders = (" ".join(k.variables) + " " if k.variables else "") + k.params
        for suffix, ty, term in outs:
            parts.append(f"Definition gen_{k.name}_{suffix} {binders} : {ty} :=\n  {term}.")
        parts.append("")
    return "\n".join(parts)


IMPORTS = {"C18": ("Serial",), "C14": ("Spaces",), "C09": ("Env", "Batching"), "C10": ("Env",), "C19": ("Env", "OnPolicy", "Logging"), "C06": ("Env", "Replay"), "C01": ("Env",), "C13": ("Env",), "C04": ("Env", "OnPolicy"), "C05": ("Env", "OnPolicy", "Replay", "OffPolicy"), "C20": ("Gait",), "C11": ("Env", "Observers"), "C12": ("Env", "OnPolicy")}


def generate(pid, coq_dir: Path):
    d = Path(coq_dir) / "gen" / pid
    d.mkdir(parents=True, exist_ok=True)
    p = d / f"GenK_{pid}.v"
    txt = coq_text(pid, IMPORTS.get(pid, ()))
    if not p.exists() or p.read_text() != txt:
        p.write_text(txt)
    return p


if __name__ == "__main__":
    import sys

    for pid in sys.argv[1:] or sorted(KERNELS):
        print(coq_text(pid, IMPORTS.get(pid, ())))
