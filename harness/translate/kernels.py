"""Kernel specifications: which lerax functions are regenerated as Coq definitions, how their parameters are
described to the symbolic executor (kernel.py), and which outputs are printed.

generate(pid, out_dir) writes coq/gen/<pid>/GenK_<pid>.v from the lerax source found under LERAX_SRC (default: /repo/src).
The link theorems in coq/link/<pid>_link.v (committed) state that the generated definitions equal the hand-written models
the property theorems are about; `CheckRun.kernel_link` (harness/common.py) regenerates and re-checks them on every run.
"""
from __future__ import annotations

import ast
import os
from pathlib import Path

from .ir import TranslateError
from .kernel import (Closure, Executor, Num, Obj, Prim, Sc, Static, Vec, fail, find_function, lift, materialise, run_function, term_of,
                     to_sc)


def src_root() -> Path:
    return Path(os.environ.get("LERAX_SRC", "/repo/src")) / "lerax"


def vecR(name):
    return Vec.base(name, "R")


def vecB(name):
    return Vec.base(name, "B")


def R(name):
    return Sc("R", name)


def Z(name):
    return Sc("Z", name)


def B(name):
    return Sc("B", name)


def K(name):
    return Sc("K", name)


def O(name):
    return Sc("O", name)


class Kernel:
    """one generated definition group: a source function and the Coq definitions printed from its symbolic result"""

    def __init__(self, name, file, cls, func, bindings, params, outputs, prims=None, variables=(), module_funcs=()):
        self.name, self.file, self.cls, self.func = name, file, cls, func
        self.bindings = bindings          # callable () -> dict parameter name -> symbolic value
        self.params = params              # Coq binder text of the generated definitions
        self.outputs = outputs            # callable (result value, executor) -> [(suffix, coq type, coq term)]
        self.prims = prims or {}
        self.variables = variables        # Section variables (text lines)
        self.module_funcs = module_funcs  # names of module-level helper functions made callable


def _tree_at(ex, n, args, kwargs):
    """eqx.tree_at(lambda x: (x.f1, x.f2), obj, (v1, v2))  ->  Obj with the named fields replaced"""
    if len(args) != 3 or kwargs:
        fail(n, "tree_at arity")
    where, obj, repl = args
    if not (isinstance(where, Closure) and isinstance(where.node, ast.Lambda) and isinstance(obj, Obj)):
        fail(n, "tree_at form")
    lam = where.node
    arg = lam.args.args[0].arg
    body = lam.body
    elts = body.elts if isinstance(body, ast.Tuple) else [body]
    vals = repl if isinstance(body, ast.Tuple) else (repl,)
    if not isinstance(vals, tuple) or len(vals) != len(elts):
        fail(n, "tree_at replacement arity")
    fields = dict(obj.fields)
    for e, v in zip(elts, vals):
        if not (isinstance(e, ast.Attribute) and isinstance(e.value, ast.Name) and e.value.id == arg and e.attr in fields):
            fail(n, "tree_at selector")
        fields[e.attr] = v
    return Obj(fields, obj.name)


# ------------------------------------------------------------------------------------------------ C03: GAE
def _gae_bind():
    return {"self": Obj({"values": vecR("values"), "rewards": vecR("rewards"), "dones": vecB("dones"),
                         "returns": Static(None), "advantages": Static(None)}, "RolloutBuffer"),
            "last_value": R("last"), "gae_lambda": R("lam"), "gamma": R("gam")}


def _gae_out(res, ex):
    if not isinstance(res, Obj):
        raise TranslateError("compute_returns_and_advantages no longer returns the buffer with replaced fields")
    for f in ("values", "rewards", "dones"):
        v = res.fields[f]
        if not (isinstance(v, Vec) and materialise(v) == f):
            raise TranslateError(f"compute_returns_and_advantages changes the field {f}")
    return [("advantages", "list R", term_of(res.fields["advantages"])), ("returns", "list R", term_of(res.fields["returns"]))]


KERNELS = {
    "C03": [Kernel("gae", "buffer/rollout.py", "RolloutBuffer", "compute_returns_and_advantages", _gae_bind,
                   "(gam lam last : R) (rewards values : list R) (dones : list bool)", _gae_out,
                   prims={"eqx.tree_at": Prim(_tree_at)})],
}


# ------------------------------------------------------------------------------------------------ driver
def translate(pid):
    """[(kernel, sha, [(suffix, type, term)])]"""
    out = []
    for k in KERNELS[pid]:
        path = src_root() / k.file
        try:
            fn, sha = find_function(path, k.cls, k.func)
            ex = Executor(prims=k.prims)
            scope = {}
            if k.module_funcs:
                tree = ast.parse(path.read_text())
                for node in tree.body:
                    if isinstance(node, ast.FunctionDef) and node.name in k.module_funcs:
                        scope[node.name] = Closure(node, scope)
            res = run_function(ex, fn, k.bindings(), scope)
            out.append((k, sha, k.outputs(res, ex)))
        except TranslateError as e:
            raise TranslateError(f"{k.file}:{k.cls or ''}.{k.func}: {e}") from e
    return out


HEADER = """(* GENERATED by harness/translate/kernels.py from the lerax source.  DO NOT EDIT: the {pid} check regenerates this
   file on every run and re-checks coq/link/{pid}_link.v against it. *)
From Coq Require Import Reals List ZArith Bool.
From Lerax Require Import KBase{imports}.
Import ListNotations.
"""


def coq_text(pid, imports=()):
    parts = [HEADER.format(pid=pid, imports="".join(" " + i for i in imports))]
    for k, sha, outs in translate(pid):
        parts.append(f"(* {k.file} :: {(k.cls + '.') if k.cls else ''}{k.func}   (sha256 of the file {sha}) *)")
        if k.variables:
            parts.append(f"Section Gen_{k.name}.")
            parts.extend(k.variables)
        for suffix, ty, term in outs:
            parts.append(f"Definition gen_{k.name}_{suffix} {k.params} : {ty} :=\n  {term}.")
        if k.variables:
            parts.append(f"End Gen_{k.name}.")
        parts.append("")
    return "\n".join(parts)


IMPORTS = {}


def generate(pid, coq_dir: Path):
    d = Path(coq_dir) / "gen" / pid
    d.mkdir(parents=True, exist_ok=True)
    p = d / f"GenK_{pid}.v"
    txt = coq_text(pid, IMPORTS.get(pid, ()))
    if not p.exists() or p.read_text() != txt:
        p.write_text(txt)
    return p


if __name__ == "__main__":
    import sys

    for pid in sys.argv[1:] or sorted(KERNELS):
        print(coq_text(pid, IMPORTS.get(pid, ())))
