"""Fail-closed translator: lerax classic-control source (Python `ast`) -> expression IR -> Coq (R and Q).

    from harness.translate import classic
    envs = classic.translate_all()          # parses $LERAX_SRC (default /repo/src) at call time
    classic.write_coq(envs, coq_theories)   # Gen_<Env>.v

Anything the front end does not understand raises `TranslateError`; callers report `proof-broken`.
"""
from .ir import TranslateError  # noqa: F401
