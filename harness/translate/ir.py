"""Expression IR of the translator: typed scalar expressions over the reals, booleans, and a discrete action.

Types:  'R' real scalar, 'B' boolean, 'N' discrete action (natural number).
Vectors are plain Python lists of 'R' expressions (never IR nodes).

Every node is printed to Coq twice from the same tree:
  mode 'R'  real numbers (Reals; sin/cos/PI from the standard library) - the definitions the theorems are about;
  mode 'Q'  rationals, executable with vm_compute; every sin/cos application and PI is read from an
            oracle list `orc` (index 0 = pi, then one entry per trig node in static traversal order) that
            the harness fills with the values the numeric evaluator computed at the same nodes.
and evaluated numerically (float64) by `Evaluator`, which is what is compared with the real lerax methods.
"""
from __future__ import annotations

import math
from fractions import Fraction


class TranslateError(Exception):
    """raised for every construct the front end does not understand (fail closed)"""


class Node:
    ty = "R"
    kids: tuple = ()


class Const(Node):
    def __init__(self, v: Fraction):
        self.v = Fraction(v)


class BConst(Node):
    ty = "B"

    def __init__(self, b: bool):
        self.b = bool(b)


class Pi(Node):
    pass


class Inf(Node):
    """+infinity; only legal inside observation bounds"""


class Var(Node):
    def __init__(self, name, ty="R"):
        self.name, self.ty = name, ty


class CRef(Node):
    """reference to a scalar constructor constant (self.<name>)"""

    def __init__(self, name):
        self.name = name


class Bin(Node):
    def __init__(self, op, a, b):
        assert op in "+-*/"
        self.op, self.kids = op, (a, b)


class Neg(Node):
    def __init__(self, a):
        self.kids = (a,)


class Pow(Node):
    def __init__(self, a, n: int):
        self.n, self.kids = n, (a,)


class Fn(Node):
    def __init__(self, name, a):
        assert name in ("sin", "cos")
        self.name, self.kids = name, (a,)


class Clip(Node):
    def __init__(self, x, lo, hi):
        self.kids = (x, lo, hi)


class MinMax(Node):
    def __init__(self, which, a, b):
        assert which in ("min", "max")
        self.which, self.kids = which, (a, b)


class Where(Node):
    def __init__(self, c, a, b):
        self.kids = (c, a, b)


class Mod(Node):
    """floor-mod (Python / jnp `%`)"""

    def __init__(self, a, m):
        self.kids = (a, m)


class Cmp(Node):
    ty = "B"

    def __init__(self, op, a, b):
        assert op in ("le", "lt", "ge", "gt", "eq", "ne")
        self.op, self.kids = op, (a, b)


class BoolOp(Node):
    ty = "B"

    def __init__(self, op, a, b):
        assert op in ("and", "or")
        self.op, self.kids = op, (a, b)


class Not(Node):
    ty = "B"

    def __init__(self, a):
        self.kids = (a,)


class B2R(Node):
    def __init__(self, b):
        self.kids = (b,)


class ActR(Node):
    """discrete action used as a number"""

    def __init__(self, a):
        self.kids = (a,)


class Index(Node):
    """vector constant indexed by the discrete action: self.<vec>[action]"""

    def __init__(self, vec_name, a):
        self.vec_name, self.kids = vec_name, (a,)


class Call(Node):
    """call of another translated method of the same environment (e.g. self.terminal(state))"""

    def __init__(self, fname, args, ty):
        self.fname, self.kids, self.ty = fname, tuple(args), ty


class Func:
    """params: [(coq_name, 'R'|'N')]; lets: [(name, Node)] in order; ret: Node or [Node]"""

    def __init__(self, name, params, lets, ret):
        self.name, self.params, self.lets, self.ret = name, params, lets, ret

    @property
    def is_vec(self):
        return isinstance(self.ret, list)

    def roots(self):
        for _, e in self.lets:
            yield e
        if self.is_vec:
            yield from self.ret
        else:
            yield self.ret


def walk(e: Node, seen=None):
    """static DFS, pre-order, each node object once"""
    seen = set() if seen is None else seen
    if id(e) in seen:
        return
    seen.add(id(e))
    yield e
    for k in e.kids:
        yield from walk(k, seen)


def trig_nodes(f: Func):
    """the trig nodes of a function in the static order shared by the Q printer and the evaluator"""
    seen: set = set()
    out = []
    for r in f.roots():
        for n in walk(r, seen):
            if isinstance(n, Fn):
                out.append(n)
    return out


def has(f_or_nodes, cls):
    roots = f_or_nodes.roots() if isinstance(f_or_nodes, Func) else f_or_nodes
    seen: set = set()
    return any(isinstance(n, cls) for r in roots for n in walk(r, seen))


# ---------------------------------------------------------------------------------------------
# numeric evaluation
# ---------------------------------------------------------------------------------------------
class Evaluator:
    """float64 evaluation of translated functions of one environment.
    consts: {name: float | [float]}; funcs: {name: Func}"""

    def __init__(self, consts, funcs):
        self.consts, self.funcs = consts, funcs

    def call(self, fname, args, trig_log=None):
        f = self.funcs[fname]
        if len(args) != len(f.params):
            raise TranslateError(f"arity mismatch calling {fname}")
        env = {p: v for (p, _), v in zip(f.params, args)}
        for name, e in f.lets:
            env[name] = self.ev(e, env, trig_log)
        if f.is_vec:
            return [self.ev(e, env, trig_log) for e in f.ret]
        return self.ev(f.ret, env, trig_log)

    def oracle(self, fname, args):
        """(result, oracle list) : oracle[0] = pi, oracle[1+i] = value of the i-th trig node"""
        log: dict = {}
        res = self.call(fname, args, log)
        return res, [math.pi] + [log[id(n)] for n in trig_nodes(self.funcs[fname])]

    def ev(self, e, env, log):
        k = [self.ev(x, env, log) for x in e.kids]
        if isinstance(e, Const):
            return float(e.v)
        if isinstance(e, BConst):
            return e.b
        if isinstance(e, Pi):
            return math.pi
        if isinstance(e, Inf):
            return math.inf
        if isinstance(e, Var):
            return env[e.name]
        if isinstance(e, CRef):
            return self.consts[e.name]
        if isinstance(e, Bin):
            a, b = k
            return a + b if e.op == "+" else a - b if e.op == "-" else a * b if e.op == "*" else a / b
        if isinstance(e, Neg):
            return -k[0]
        if isinstance(e, Pow):
            return k[0] ** e.n
        if isinstance(e, Fn):
            v = math.sin(k[0]) if e.name == "sin" else math.cos(k[0])
            if log is not None:
                log[id(e)] = v
            return v
        if isinstance(e, Clip):
            return min(max(k[0], k[1]), k[2])
        if isinstance(e, MinMax):
            return min(k) if e.which == "min" else max(k)
        if isinstance(e, Where):
            return k[1] if k[0] else k[2]
        if isinstance(e, Mod):
            return k[0] - math.floor(k[0] / k[1]) * k[1]
        if isinstance(e, Cmp):
            a, b = k
            return {"le": a <= b, "lt": a < b, "ge": a >= b, "gt": a > b, "eq": a == b, "ne": a != b}[e.op]
        if isinstance(e, BoolOp):
            return (k[0] and k[1]) if e.op == "and" else (k[0] or k[1])
        if isinstance(e, Not):
            return not k[0]
        if isinstance(e, B2R):
            return 1.0 if k[0] else 0.0
        if isinstance(e, ActR):
            return float(k[0])
        if isinstance(e, Index):
            return self.consts[e.vec_name][int(k[0])]
        if isinstance(e, Call):
            return self.call(e.fname, k, None if log is None else {})
        raise TranslateError(f"evaluator: unknown node {type(e).__name__}")


# ---------------------------------------------------------------------------------------------
# Coq printing
# ---------------------------------------------------------------------------------------------
def qconst(v: Fraction, mode):
    n, d = v.numerator, v.denominator
    if mode == "R":
        s = f"{abs(n)}" if d == 1 else f"({abs(n)} / {d})"
        return f"(- {s})" if n < 0 else s
    s = f"({abs(n)} # {d})"
    return f"(- {s})" if n < 0 else s


class Printer:
    """mode 'R' or 'Q'.  In Q mode `trig_index` maps id(trig node) -> oracle index."""

    def __init__(self, mode, trig_index=None, q_funcs=()):
        self.mode, self.trig_index, self.q_funcs = mode, trig_index or {}, set(q_funcs)
        self.sfx = "" if mode == "R" else "Q"

    def cname(self, name):
        return f"c_{name}" if self.mode == "R" else f"(c_{name}Q orc)"

    def p(self, e):
        m = self.mode
        k = e.kids
        if isinstance(e, Const):
            return qconst(e.v, m)
        if isinstance(e, BConst):
            return "true" if e.b else "false"
        if isinstance(e, Pi):
            return "PI" if m == "R" else "(orc_at orc 0)"
        if isinstance(e, Inf):
            raise TranslateError("infinity outside observation bounds")
        if isinstance(e, Var):
            return e.name
        if isinstance(e, CRef):
            return self.cname(e.name)
        if isinstance(e, Bin):
            return f"({self.p(k[0])} {e.op} {self.p(k[1])})"
        if isinstance(e, Neg):
            return f"(- {self.p(k[0])})"
        if isinstance(e, Pow):
            return f"({self.p(k[0])} ^ {e.n})"
        if isinstance(e, Fn):
            if m == "R":
                return f"({e.name} {self.p(k[0])})"
            return f"(orc_at orc {self.trig_index[id(e)]})"
        if isinstance(e, Clip):
            return f"({m}clip {self.p(k[0])} {self.p(k[1])} {self.p(k[2])})"
        if isinstance(e, MinMax):
            return f"({m}{e.which} {self.p(k[0])} {self.p(k[1])})"
        if isinstance(e, Where):
            return f"(if {self.p(k[0])} then {self.p(k[1])} else {self.p(k[2])})"
        if isinstance(e, Mod):
            if m == "Q":
                raise TranslateError("floor-mod has no Q version")
            return f"(Rfmod {self.p(k[0])} {self.p(k[1])})"
        if isinstance(e, Cmp):
            a, b = self.p(k[0]), self.p(k[1])
            return {
                "le": f"({m}leb {a} {b})", "lt": f"({m}ltb {a} {b})",
                "ge": f"({m}leb {b} {a})", "gt": f"({m}ltb {b} {a})",
                "eq": f"({m}eqb {a} {b})", "ne": f"(negb ({m}eqb {a} {b}))",
            }[e.op]
        if isinstance(e, BoolOp):
            return f"({'andb' if e.op == 'and' else 'orb'} {self.p(k[0])} {self.p(k[1])})"
        if isinstance(e, Not):
            return f"(negb {self.p(k[0])})"
        if isinstance(e, B2R):
            return f"(b2{m} {self.p(k[0])})"
        if isinstance(e, ActR):
            return f"(INR {self.p(k[0])})" if m == "R" else f"(inject_Z (Z.of_nat {self.p(k[0])}))"
        if isinstance(e, Index):
            z = "0" if m == "R" else "0"
            return f"(nth {self.p(k[0])} {self.cname(e.vec_name)} {z})"
        if isinstance(e, Call):
            args = " ".join(self.p(x) for x in k)
            if m == "R":
                return f"({e.fname} {args})"
            if e.fname not in self.q_funcs:
                raise TranslateError(f"call of {e.fname}, which has no Q version")
            # callee's own oracle entries are not threaded: only trig-free callees are allowed
            return f"({e.fname}Q orc {args})"
        raise TranslateError(f"printer: unknown node {type(e).__name__}")


def print_func(f: Func, mode, q_funcs=(), funcs=None):
    """Coq Definition of a translated function.  Raises TranslateError when the Q version is impossible."""
    tn = trig_nodes(f)
    pr = Printer(mode, {id(n): i + 1 for i, n in enumerate(tn)}, q_funcs)
    if mode == "Q":
        seen: set = set()
        for r in f.roots():
            for n in walk(r, seen):
                if isinstance(n, Call) and funcs is not None and trig_nodes(funcs[n.fname]):
                    raise TranslateError("Q version: callee uses trig oracles")
    T = mode
    ps = " ".join(f"({n} : {'nat' if t == 'N' else T})" for n, t in f.params)
    head = f"Definition {f.name}{pr.sfx} " + ("(orc : list Q) " if mode == "Q" else "") + ps
    rty = f"list {T}" if f.is_vec else ("bool" if f.ret.ty == "B" else T)
    body = []
    for name, e in f.lets:
        body.append(f"  let {name} := {pr.p(e)} in")
    if f.is_vec:
        body.append("  [" + ";\n   ".join(pr.p(e) for e in f.ret) + "].")
    else:
        body.append(f"  {pr.p(f.ret)}.")
    return f"{head} : {rty} :=\n" + "\n".join(body)
