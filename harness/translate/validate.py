"""Validation of the translator front end: the IR (numeric evaluator) against the real lerax objects.
Needs jax + lerax importable (x64 recommended).  Returns lists of human-readable mismatch records."""
from __future__ import annotations

import importlib
import math

import numpy as np

from . import classic
from .pyfront import EnvIR

TWO_PI = 2 * math.pi


def real_env(name):
    mod = importlib.import_module("lerax.env.classic_control." + classic.ENVS[name][:-3])
    return getattr(mod, name)(), getattr(mod, name + "State")


def close(a, b, tol):
    a, b = float(a), float(b)
    if math.isinf(a) or math.isinf(b):
        return a == b
    return abs(a - b) <= tol * max(1.0, abs(b))


def special_values(env: EnvIR):
    vals = {0.0}
    for v in classic.const_values(env).values():
        for x in (v if isinstance(v, list) else [v]):
            if math.isfinite(x):
                for s in (x, -x):
                    vals.update((s, s + 1e-3, s - 1e-3))
    return sorted(vals)


def gen_states(env: EnvIR, rng, n, span):
    """random states in [-span, span]^dim mixed with special coordinates (limits, thresholds, goal)"""
    sp = special_values(env)
    out = []
    for i in range(n):
        y = rng.uniform(-span, span, size=env.dim)
        if i % 2 == 0:
            for d in range(env.dim):
                if rng.random() < 0.5:
                    y[d] = sp[rng.integers(len(sp))]
        out.append(y)
    return np.array(out)


def gen_actions(env: EnvIR, rng, n):
    if env.action[0] == "N":
        return rng.integers(0, env.action[1], size=n)
    a = rng.uniform(-1.5, 1.5, size=n) * max(1.0, abs(classic.bounds_values_action(env)[1]))
    a[::7] = classic.bounds_values_action(env)[1]
    a[3::7] = classic.bounds_values_action(env)[0]
    return a


def validate_constants(env: EnvIR, renv, tol=1e-12):
    bad = []
    vals = classic.const_values(env)
    for name, v in vals.items():
        if not hasattr(renv, name):
            bad.append({"what": "constant not an attribute of the real environment", "name": name})
            continue
        r = np.asarray(getattr(renv, name), dtype=float).reshape(-1)
        m = np.asarray(v, dtype=float).reshape(-1)
        if r.shape != m.shape or not all(close(a, b, tol) for a, b in zip(m, r)):
            bad.append({"what": "constructor constant differs", "name": name, "translated": m.tolist(), "lerax": r.tolist()})
    for nm, attr in (("obs_low", "low"), ("obs_high", "high")):
        m = np.asarray(classic.bounds_values(env, nm), dtype=float)
        r = np.asarray(getattr(renv.observation_space, attr), dtype=float).reshape(-1)
        if r.shape != m.shape or not all(close(a, b, tol) for a, b in zip(m, r)):
            bad.append({"what": "observation bound differs", "name": nm, "translated": m.tolist(), "lerax": r.tolist()})
    if env.action[0] == "N":
        if int(renv.action_space.n) != env.action[1]:
            bad.append({"what": "number of actions differs", "translated": env.action[1], "lerax": int(renv.action_space.n)})
    else:
        lo, hi = classic.bounds_values_action(env)
        if not (close(lo, np.asarray(renv.action_space.low).reshape(-1)[0], tol) and close(hi, np.asarray(renv.action_space.high).reshape(-1)[0], tol)):
            bad.append({"what": "action bounds differ", "translated": [lo, hi]})
    return bad


def real_outputs(env: EnvIR, renv, State, ys, acts, ns):
    """run the real lerax methods (vmapped) : dict of numpy arrays"""
    import jax
    import jax.numpy as jnp

    key = jax.random.key(0)
    ys, ns = jnp.asarray(ys), jnp.asarray(ns)
    acts = jnp.asarray(acts)
    t0 = jnp.array(0.0)
    mk = lambda y: State(y=y, t=t0)  # noqa: E731
    out = {
        "dynamics": jax.vmap(lambda y, a: renv.dynamics(t0, y, a))(ys, acts),
        "clip": jax.vmap(renv.clip)(ys),
        "observation": jax.vmap(lambda y: renv.observation(mk(y), key=key))(ys),
        "terminal": jax.vmap(lambda y: renv.terminal(mk(y), key=key))(ys),
        "reward": jax.vmap(lambda y, a, n: renv.reward(mk(y), a, mk(n), key=key))(ys, acts, ns),
    }
    return {k: np.asarray(v) for k, v in out.items()}


def validate_functions(env: EnvIR, renv, State, ys, acts, ns, tol=1e-9):
    """IR evaluator vs real lerax on the given states/actions/next states.
    Returns (mismatches, records) where records[i] = inputs, IR outputs, oracle lists, lerax outputs."""
    ev = classic.evaluator(env)
    real = real_outputs(env, renv, State, ys, acts, ns)
    from .ir import Mod, has

    bad, recs = [], []
    for i in range(len(ys)):
        y, n = [float(v) for v in ys[i]], [float(v) for v in ns[i]]
        a = int(acts[i]) if env.action[0] == "N" else float(acts[i])
        args = {"dynamics": y + [a], "clip": y, "observation": y, "terminal": y, "reward": y + [a] + n}
        rec = {"y": y, "a": a, "n": n, "ir": {}, "orc": {}, "lerax": {}}
        for fn, ar in args.items():
            res, orc = ev.oracle(fn, ar)
            r = real[fn][i]
            rec["ir"][fn], rec["orc"][fn] = res, orc
            rec["lerax"][fn] = r.tolist()
            if fn == "terminal":
                ok = bool(res) == bool(r)
            else:
                rv = np.asarray(r, dtype=float).reshape(-1)
                mv = np.asarray(res, dtype=float).reshape(-1)
                ok = rv.shape == mv.shape and bool(np.all(np.isfinite(rv)))
                if ok:
                    wrap = has(env.funcs[fn], Mod)
                    for p, q in zip(mv, rv):
                        if not close(p, q, tol) and not (wrap and abs(abs(p - q) - TWO_PI) < 1e-6):
                            ok = False
            if not ok:
                bad.append({"what": f"translated {fn} differs from lerax {env.name}.{fn}", "state": y, "action": a,
                            "next_state": n, "translated": res, "lerax": r.tolist()})
        recs.append(rec)
    return bad, recs


def validate_initial(env: EnvIR, renv, n=4000):
    import jax

    keys = jax.random.split(jax.random.key(1), n)
    ys = np.asarray(jax.vmap(lambda k: renv.initial(key=k).y)(keys), dtype=float)
    ts = np.asarray(jax.vmap(lambda k: renv.initial(key=k).t)(keys), dtype=float)
    lo = np.asarray(classic.bounds_values(env, "init_low"))
    hi = np.asarray(classic.bounds_values(env, "init_high"))
    bad = []
    if not np.all(ts == 0):
        bad.append({"what": "initial time is not 0"})
    for d in range(env.dim):
        mn, mx, w = ys[:, d].min(), ys[:, d].max(), hi[d] - lo[d]
        if mn < lo[d] - 1e-12 or mx > hi[d] + 1e-12 or mn > lo[d] + 0.01 * w + 1e-15 or mx < hi[d] - 0.01 * w - 1e-15:
            bad.append({"what": "initial-state range differs", "dim": d, "translated": [float(lo[d]), float(hi[d])],
                        "lerax_sample_min_max": [float(mn), float(mx)], "samples": n})
    return bad
