"""Python-`ast` front end: one lerax classic-control environment class -> EnvIR.  Fail closed:
every statement / expression form that is not explicitly handled raises TranslateError."""
from __future__ import annotations

import ast
import hashlib
from fractions import Fraction
from pathlib import Path

from .ir import (ActR, B2R, BConst, Bin, BoolOp, Call, Clip, Cmp, Const, CRef, Fn, Func, Index, Inf, MinMax, Mod, Neg, Node, Not,
                 Pi, Pow, TranslateError, Var, Where)

# constructor attributes that configure the ODE solver, not the MDP: not translated
IGNORED_ATTRS = {"solver", "stepsize_controller", "dt0"}
IGNORED_PARAMS = {"solver", "stepsize_controller"}
METHODS = ("dynamics", "clip", "observation", "reward", "terminal")


class Range:
    """value drawn uniformly from [lo, hi] (only inside `initial`)"""

    def __init__(self, lo, hi):
        self.lo, self.hi = lo, hi


class VecConst(list):
    """vector-valued constructor constant, remembers its name (for Index)"""

    name = None


class EnvIR:
    def __init__(self):
        self.name = None
        self.path = None
        self.sha = None
        self.dim = None
        self.consts = []          # [(name, Node | [Node])] in definition order
        self.action = None        # ('N', n) | ('R', lo Node, hi Node)
        self.obs_low = None       # [Node] (Inf / Neg(Inf) allowed)
        self.obs_high = None
        self.init_low = None      # [Node]
        self.init_high = None
        self.funcs = {}           # name -> Func
        self.docs_gymnasium = False


def fail(node, msg):
    line = getattr(node, "lineno", "?")
    raise TranslateError(f"line {line}: {msg}: {ast.dump(node)[:160] if isinstance(node, ast.AST) else node}")


def is_vec(v):
    return isinstance(v, list)


def scalar(v, node, allow=("R", "N", "B")):
    if isinstance(v, Node) and v.ty in allow:
        return v
    fail(node, "expected a scalar")


def as_real(v, node):
    """coerce action / bool to a real number the way jnp arithmetic does"""
    v = scalar(v, node)
    if v.ty == "N":
        return ActR(v)
    if v.ty == "B":
        return B2R(v)
    return v


class Translator:
    def __init__(self, env: EnvIR, cls: ast.ClassDef):
        self.env, self.cls = env, cls
        self.const_vals = {}      # name -> Node (CRef) | VecConst
        self.method_nodes = {n.name: n for n in cls.body if isinstance(n, ast.FunctionDef)}
        self.module_funcs = {}
        self.depth = 0

    # ---------------------------------------------------------------- expressions
    def expr(self, n, scope):
        if isinstance(n, ast.Constant):
            if isinstance(n.value, bool):
                return BConst(n.value)
            if not isinstance(n.value, (int, float)):
                fail(n, "unsupported constant")
            return Const(Fraction(repr(n.value)))
        if isinstance(n, ast.Name):
            if n.id in scope:
                v = scope[n.id]
                if v is None:
                    fail(n, f"use of the unsupported name {n.id}")
                return v
            fail(n, "unknown name")
        if isinstance(n, (ast.List, ast.Tuple)):
            out = []
            for e in n.elts:
                v = self.expr(e, scope)
                out.append(v if isinstance(v, Range) else as_real(v, e))
            return out
        if isinstance(n, ast.Attribute):
            if isinstance(n.value, ast.Name):
                base = n.value.id
                if base == "jnp" and n.attr == "pi":
                    return Pi()
                if base == "jnp" and n.attr == "inf":
                    return Inf()
                if base == "self":
                    if n.attr in self.const_vals:
                        return self.const_vals[n.attr]
                    fail(n, "unknown constructor constant")
                if base in scope and isinstance(scope[base], dict) and n.attr in scope[base]:
                    return scope[base][n.attr]      # state.y
            fail(n, "unsupported attribute")
        if isinstance(n, ast.Subscript):
            v = self.expr(n.value, scope)
            if not is_vec(v):
                fail(n, "subscript of a non-vector")
            if isinstance(n.slice, ast.Constant) and isinstance(n.slice.value, int) and 0 <= n.slice.value < len(v):
                return v[n.slice.value]
            idx = self.expr(n.slice, scope)
            if isinstance(idx, Node) and idx.ty == "N" and isinstance(v, VecConst) and v.name:
                if self.env.action[0] != "N" or self.env.action[1] != len(v):
                    fail(n, "indexed vector length differs from the number of actions")
                return Index(v.name, idx)
            fail(n, "unsupported subscript")
        if isinstance(n, ast.UnaryOp):
            v = self.expr(n.operand, scope)
            if isinstance(n.op, ast.USub):
                if is_vec(v):
                    return [Neg(as_real(x, n)) for x in v]
                return Neg(as_real(v, n))
            if isinstance(n.op, ast.Invert):
                return Not(scalar(v, n, ("B",)))
            fail(n, "unsupported unary operator")
        if isinstance(n, ast.BinOp):
            if isinstance(n.op, ast.Pow):
                if not (isinstance(n.right, ast.Constant) and isinstance(n.right.value, int) and 1 <= n.right.value <= 4):
                    fail(n, "power with a non-constant / large exponent")
                return Pow(as_real(self.expr(n.left, scope), n), n.right.value)
            a, b = self.expr(n.left, scope), self.expr(n.right, scope)
            if isinstance(n.op, (ast.BitAnd, ast.BitOr)):
                return BoolOp("and" if isinstance(n.op, ast.BitAnd) else "or", scalar(a, n, ("B",)), scalar(b, n, ("B",)))
            ops = {ast.Add: "+", ast.Sub: "-", ast.Mult: "*", ast.Div: "/"}
            if type(n.op) in ops:
                return Bin(ops[type(n.op)], as_real(a, n), as_real(b, n))
            if isinstance(n.op, ast.Mod):
                return Mod(as_real(a, n), as_real(b, n))
            fail(n, "unsupported binary operator")
        if isinstance(n, ast.Compare):
            if len(n.ops) != 1:
                fail(n, "chained comparison")
            ops = {ast.LtE: "le", ast.Lt: "lt", ast.GtE: "ge", ast.Gt: "gt", ast.Eq: "eq", ast.NotEq: "ne"}
            if type(n.ops[0]) not in ops:
                fail(n, "unsupported comparison")
            a, b = self.expr(n.left, scope), self.expr(n.comparators[0], scope)
            return Cmp(ops[type(n.ops[0])], as_real(scalar(a, n, ("R", "N")), n), as_real(scalar(b, n, ("R", "N")), n))
        if isinstance(n, ast.Call):
            return self.call(n, scope)
        fail(n, "unsupported expression")

    def call(self, n, scope):
        f = n.func
        if isinstance(f, ast.Attribute) and isinstance(f.value, ast.Name) and f.value.id == "jnp":
            if any(k.arg != "dtype" for k in n.keywords) or (n.keywords and f.attr not in ("array", "asarray", "stack")):
                fail(n, "keyword arguments to a jnp function")
            args = [self.expr(a, scope) for a in n.args]
            # equivalent spellings of supported operations (a harmless rewrite of the source must still translate)
            if f.attr == "square" and len(args) == 1:
                return Pow(as_real(args[0], n), 2)
            if f.attr == "power" and len(args) == 2 and isinstance(n.args[1], ast.Constant) \
                    and isinstance(n.args[1].value, int) and 1 <= n.args[1].value <= 4:
                return Pow(as_real(args[0], n), n.args[1].value)
            if f.attr in ("add", "subtract", "multiply", "divide", "true_divide") and len(args) == 2:
                op = {"add": "+", "subtract": "-", "multiply": "*", "divide": "/", "true_divide": "/"}[f.attr]
                return Bin(op, as_real(args[0], n), as_real(args[1], n))
            if f.attr == "negative" and len(args) == 1:
                return Neg(as_real(args[0], n))
            if f.attr in ("abs", "absolute") and len(args) == 1:
                x = as_real(args[0], n)
                return MinMax("max", x, Neg(x))
            if f.attr in ("logical_and", "logical_or") and len(args) == 2:
                return BoolOp("and" if f.attr == "logical_and" else "or", scalar(args[0], n, ("B",)), scalar(args[1], n, ("B",)))
            if f.attr == "logical_not" and len(args) == 1:
                return Not(scalar(args[0], n, ("B",)))
            if f.attr in ("stack", "hstack") and len(args) == 1 and is_vec(args[0]):
                return args[0]
            if f.attr in ("float32", "float64") and len(args) == 1:
                return as_real(args[0], n)
            if f.attr in ("sin", "cos") and len(args) == 1:
                return Fn(f.attr, as_real(args[0], n))
            if f.attr == "clip" and len(args) == 3:
                return Clip(*[as_real(a, n) for a in args])
            if f.attr in ("minimum", "maximum") and len(args) == 2:
                return MinMax(f.attr[:3], as_real(args[0], n), as_real(args[1], n))
            if f.attr == "where" and len(args) == 3:
                return Where(scalar(args[0], n, ("B",)), as_real(args[1], n), as_real(args[2], n))
            if f.attr in ("array", "asarray") and len(args) == 1:
                return args[0]
            fail(n, "unsupported jnp function")
        if isinstance(f, ast.Attribute) and f.attr == "astype":
            if len(n.args) == 1 and isinstance(n.args[0], ast.Name) and n.args[0].id == "float" and not n.keywords:
                return as_real(self.expr(f.value, scope), n)
            fail(n, "unsupported astype")
        if isinstance(f, ast.Attribute) and isinstance(f.value, ast.Name) and f.value.id == "self" and f.attr == "terminal":
            # self.terminal(<state name>, key=key)
            if len(n.args) == 1 and isinstance(n.args[0], ast.Name) and [k.arg for k in n.keywords] == ["key"]:
                st = scope.get(n.args[0].id)
                if isinstance(st, dict) and "y" in st:
                    self.method("terminal")
                    return Call("terminal", st["y"], "B")
            fail(n, "unsupported call of self.terminal")
        if isinstance(f, ast.Attribute) and isinstance(f.value, ast.Name) and f.value.id == "jr" and f.attr == "uniform":
            return self.uniform(n, scope)
        # a private helper (method of the class or module-level function) taking positional values: inlined
        helper = None
        if isinstance(f, ast.Attribute) and isinstance(f.value, ast.Name) and f.value.id == "self" \
                and f.attr in self.method_nodes and f.attr not in METHODS + ("initial", "__init__", "step", "reset"):
            helper, skip = self.method_nodes[f.attr], 1
        elif isinstance(f, ast.Name) and f.id in self.module_funcs:
            helper, skip = self.module_funcs[f.id], 0
        if helper is not None:
            a = helper.args
            pos = [x.arg for x in a.args][skip:]
            if a.posonlyargs or a.vararg or a.kwarg or a.defaults or a.kwonlyargs or n.keywords or len(pos) != len(n.args):
                fail(n, "unsupported helper signature")
            if self.depth > 4:
                fail(n, "helper calls nested too deeply")
            inner = {p: self.expr(x, scope) for p, x in zip(pos, n.args)}
            self.depth += 1
            try:
                _, ret = self.body(helper, inner, inline=True)
            finally:
                self.depth -= 1
            return ret
        fail(n, "unsupported call")

    def uniform(self, n, scope):
        if not scope.get("__initial__"):
            fail(n, "random draw outside initial()")
        if not (n.args and isinstance(n.args[0], ast.Name) and n.args[0].id == "key"):
            fail(n, "jr.uniform without the key")
        kw = {k.arg: k.value for k in n.keywords}
        shape = n.args[1] if len(n.args) == 2 else kw.pop("shape", None)
        if len(n.args) > 2 or set(kw) != {"minval", "maxval"}:
            fail(n, "unsupported jr.uniform signature")
        lo, hi = self.expr(kw["minval"], scope), self.expr(kw["maxval"], scope)
        if shape is None:
            return Range(as_real(lo, n), as_real(hi, n))
        if not (isinstance(shape, ast.Tuple) and len(shape.elts) == 1 and isinstance(shape.elts[0], ast.Constant)):
            fail(n, "unsupported shape")
        k = shape.elts[0].value
        los = lo if is_vec(lo) else [lo] * k
        his = hi if is_vec(hi) else [hi] * k
        if len(los) != k or len(his) != k:
            fail(n, "minval/maxval length differs from the shape")
        return [Range(as_real(a, n), as_real(b, n)) for a, b in zip(los, his)]

    # ---------------------------------------------------------------- constructor
    def init(self):
        fn = self.method_nodes.get("__init__")
        if fn is None:
            raise TranslateError("no __init__")
        a = fn.args
        if a.posonlyargs or a.vararg or a.kwarg or [x.arg for x in a.args] != ["self"]:
            fail(fn, "unsupported __init__ signature")
        scope = {}
        for arg, d in zip(a.kwonlyargs, a.kw_defaults):
            if arg.arg in IGNORED_PARAMS:
                scope[arg.arg] = None
                continue
            if d is None:
                fail(arg, "constructor parameter without a default")
            scope[arg.arg] = self.expr(d, scope={})
        for st in fn.body:
            if isinstance(st, ast.Expr) and isinstance(st.value, ast.Constant) and isinstance(st.value.value, str):
                continue
            if not (isinstance(st, ast.Assign) and len(st.targets) == 1):
                fail(st, "unsupported statement in __init__")
            tg = st.targets[0]
            if isinstance(tg, ast.Name):
                scope[tg.id] = self.expr(st.value, scope)
                continue
            if not (isinstance(tg, ast.Attribute) and isinstance(tg.value, ast.Name) and tg.value.id == "self"):
                fail(st, "unsupported assignment target in __init__")
            name = tg.attr
            if name in IGNORED_ATTRS:
                continue
            if name == "action_space":
                self.action_space(st.value, scope)
                continue
            if name == "observation_space":
                self.observation_space(st.value, scope)
                continue
            if name in self.const_vals:
                fail(st, "constructor constant assigned twice")
            v = self.expr(st.value, scope)
            if is_vec(v):
                vc = VecConst(as_real(x, st) for x in v)
                vc.name = name
                self.env.consts.append((name, list(vc)))
                self.const_vals[name] = vc
            else:
                self.env.consts.append((name, as_real(v, st)))
                self.const_vals[name] = CRef(name)
        if self.env.action is None or self.env.obs_low is None:
            raise TranslateError("action_space / observation_space not found in __init__")

    def space_args(self, n, scope, names):
        if not (isinstance(n, ast.Call) and isinstance(n.func, ast.Name)):
            fail(n, "unsupported space constructor")
        args = [self.expr(a, scope) for a in n.args]
        kw = {k.arg: self.expr(k.value, scope) for k in n.keywords}
        if len(args) > len(names) or set(kw) - set(names[len(args):]):
            fail(n, "unsupported space arguments")
        for nm in names[len(args):]:
            if nm not in kw:
                fail(n, "missing space argument")
            args.append(kw[nm])
        return n.func.id, args

    def action_space(self, n, scope):
        kind = n.func.id if isinstance(n, ast.Call) and isinstance(n.func, ast.Name) else None
        if kind == "Discrete":
            if not (len(n.args) == 1 and isinstance(n.args[0], ast.Constant) and isinstance(n.args[0].value, int) and not n.keywords):
                fail(n, "unsupported Discrete")
            self.env.action = ("N", n.args[0].value)
        elif kind == "Box":
            _, (lo, hi) = self.space_args(n, scope, ["low", "high"])
            self.env.action = ("R", as_real(lo, n), as_real(hi, n))
        else:
            fail(n, "unsupported action space")

    def observation_space(self, n, scope):
        kind, (lo, hi) = self.space_args(n, scope, ["low", "high"])
        if kind != "Box" or not (is_vec(lo) and is_vec(hi) and len(lo) == len(hi)):
            fail(n, "unsupported observation space")
        self.env.obs_low, self.env.obs_high = list(lo), list(hi)

    # ---------------------------------------------------------------- methods
    def state_vec(self, prefix):
        return [Var(f"{prefix}{i}") for i in range(self.env.dim)]

    def method(self, name):
        if name in self.env.funcs:
            return self.env.funcs[name]
        fn = self.method_nodes.get(name)
        if fn is None:
            raise TranslateError(f"method {name} not found")
        a = fn.args
        pos = [x.arg for x in a.args]
        kwo = [x.arg for x in a.kwonlyargs]
        if a.posonlyargs or a.vararg or a.kwarg or a.defaults:
            fail(fn, "unsupported method signature")
        act = Var("a", "N") if self.env.action[0] == "N" else Var("a", "R")
        act_p = ("a", self.env.action[0])
        sv = lambda p: [(f"{p}{i}", "R") for i in range(self.env.dim)]  # noqa: E731
        if name == "dynamics" and pos == ["self", "t", "y", "action"] and not kwo:
            scope = {"t": None, "y": self.state_vec("y"), "action": act}
            params = sv("y") + [act_p]
        elif name == "clip" and pos == ["self", "y"] and not kwo:
            scope = {"y": self.state_vec("y")}
            params = sv("y")
        elif name in ("observation", "terminal") and pos == ["self", "state"] and kwo == ["key"]:
            scope = {"state": {"y": self.state_vec("s")}, "key": None}
            params = sv("s")
        elif name == "reward" and pos == ["self", "state", "action", "next_state"] and kwo == ["key"]:
            scope = {"state": {"y": self.state_vec("s")}, "next_state": {"y": self.state_vec("n")}, "action": act, "key": None}
            params = sv("s") + [act_p] + sv("n")
        else:
            fail(fn, f"unexpected signature of {name}")
        lets, ret = self.body(fn, scope)
        if is_vec(ret):
            ret = [as_real(x, fn) for x in ret]
        elif name in ("terminal",):
            ret = scalar(ret, fn, ("B",))
        else:
            ret = as_real(ret, fn)
        f = Func(name, params, lets, ret)
        self.env.funcs[name] = f
        return f

    def body(self, fn, scope, inline=False):
        lets = []
        counter = {}

        def bind(name, v, node):
            if name == "_":
                return
            if is_vec(v) or inline:
                scope[name] = v
                return
            v = scalar(v, node)
            k = counter.get(name, 0)
            counter[name] = k + 1
            cname = f"v_{name}" if k == 0 else f"v_{name}_{k}"
            lets.append((cname, v))
            scope[name] = Var(cname, v.ty)

        stmts = list(fn.body)
        for i, st in enumerate(stmts):
            if isinstance(st, ast.Expr) and isinstance(st.value, ast.Constant) and isinstance(st.value.value, str):
                continue
            if isinstance(st, ast.Return):
                if i != len(stmts) - 1 or st.value is None:
                    fail(st, "return is not the last statement")
                return lets, self.expr(st.value, scope)
            if isinstance(st, ast.Assign) and len(st.targets) == 1:
                tg = st.targets[0]
                v = self.expr(st.value, scope)
                if isinstance(tg, ast.Name):
                    bind(tg.id, v, st)
                    continue
                if isinstance(tg, ast.Tuple) and all(isinstance(e, ast.Name) for e in tg.elts):
                    if not (is_vec(v) and len(v) == len(tg.elts)):
                        fail(st, "tuple assignment from a value of different length")
                    for e, x in zip(tg.elts, v):
                        bind(e.id, x, st)
                    continue
            fail(st, "unsupported statement")
        fail(fn, "function without return")

    def initial(self, state_cls_name):
        fn = self.method_nodes.get("initial")
        if fn is None:
            raise TranslateError("no initial()")
        if [x.arg for x in fn.args.args] != ["self"] or [x.arg for x in fn.args.kwonlyargs] != ["key"]:
            fail(fn, "unexpected signature of initial")
        scope = {"key": None, "__initial__": True}
        lets, ret = self.body_initial(fn, scope)
        if not (isinstance(ret, ast.Call) and isinstance(ret.func, ast.Name) and ret.func.id == state_cls_name and not ret.args):
            fail(fn, "initial() does not return the state class")
        kw = {k.arg: k.value for k in ret.keywords}
        if set(kw) != {"y", "t"}:
            fail(fn, "unexpected state fields")
        t = self.expr(kw["t"], scope)
        if not (isinstance(t, Const) and t.v == 0):
            fail(fn, "initial time is not 0")
        y = self.expr(kw["y"], scope)
        if not (is_vec(y) and len(y) == self.env.dim):
            fail(fn, "initial state has the wrong dimension")
        lo, hi = [], []
        for c in y:
            if isinstance(c, Range):
                lo.append(c.lo), hi.append(c.hi)
            else:
                lo.append(as_real(c, fn)), hi.append(as_real(c, fn))
        self.env.init_low, self.env.init_high = lo, hi

    def body_initial(self, fn, scope):
        stmts = [s for s in fn.body if not (isinstance(s, ast.Expr) and isinstance(s.value, ast.Constant))]
        for st in stmts[:-1]:
            if isinstance(st, ast.Assign) and len(st.targets) == 1 and isinstance(st.targets[0], ast.Name):
                scope[st.targets[0].id] = self.expr(st.value, scope)
            else:
                fail(st, "unsupported statement in initial()")
        if not stmts or not isinstance(stmts[-1], ast.Return):
            fail(fn, "initial() without final return")
        return None, stmts[-1].value


def state_dim(mod: ast.Module, state_cls_name):
    for n in mod.body:
        if isinstance(n, ast.ClassDef) and n.name == state_cls_name:
            for st in n.body:
                if isinstance(st, ast.AnnAssign) and isinstance(st.target, ast.Name) and st.target.id == "y":
                    an = st.annotation
                    if (isinstance(an, ast.Subscript) and isinstance(an.slice, ast.Tuple) and len(an.slice.elts) == 2
                            and isinstance(an.slice.elts[1], ast.Constant) and str(an.slice.elts[1].value).strip().isdigit()):
                        return int(str(an.slice.elts[1].value).strip())
            raise TranslateError(f"{state_cls_name}: dimension of y not found")
    raise TranslateError(f"class {state_cls_name} not found")


def translate_env(path: Path, cls_name: str) -> EnvIR:
    src = Path(path).read_text()
    mod = ast.parse(src)
    cls = next((n for n in mod.body if isinstance(n, ast.ClassDef) and n.name == cls_name), None)
    if cls is None:
        raise TranslateError(f"class {cls_name} not found in {path}")
    env = EnvIR()
    env.name, env.path, env.sha = cls_name, str(path), hashlib.sha256(src.encode()).hexdigest()[:16]
    env.dim = state_dim(mod, cls_name + "State")
    doc = ast.get_docstring(cls) or ""
    env.docs_gymnasium = "gymnasium.farama.org" in doc
    tr = Translator(env, cls)
    tr.module_funcs = {n.name: n for n in mod.body if isinstance(n, ast.FunctionDef)}
    tr.init()
    for m in METHODS:
        tr.method(m)
    tr.initial(cls_name + "State")
    return env
