"""Kernel translator: symbolic execution of a restricted Python/JAX function body into Coq terms.

Used to regenerate, on every run, the Coq definition of the lerax kernels the properties are anchored in
(GAE, replay index, logging EMA, TD targets, PPO loss, schedule arithmetic, TimeLimit, Gym-style step, gait).
The generated definitions live in coq/gen/<Cxx>/ and are tied to the hand-written models (about which the property
theorems are proved) by link theorems in coq/link/ that are re-checked by the property's own check.

Fail closed: every statement / expression / call that is not explicitly handled raises TranslateError.

Values of the symbolic executor
  Sc(ty, t)      scalar; ty in 'R' (real), 'Z' (integer), 'B' (bool), 'K' (PRNG key path), 'O' (opaque Coq term), t = Coq text
  Num(q)         numeric literal, adopts the type of the other operand
  Vec(ety, ...)  vector in pointwise form: a body over element placeholders of a list of base vectors (Coq lists)
  Obj(fields)    record-like Python object (attribute access only)
  Static(v)      static Python value (None, str, tuple of ints ...)
  Closure        nested def / lambda, inlined when called
  python tuple / list of values
"""
from __future__ import annotations

import ast
import hashlib
from fractions import Fraction
from pathlib import Path

from .ir import TranslateError


# ------------------------------------------------------------------------------------------------ values
class Sc:
    def __init__(self, ty, t):
        assert ty in ("R", "Z", "B", "K", "O"), ty
        self.ty, self.t = ty, t

    def __repr__(self):
        return f"Sc({self.ty},{self.t})"


class Num:
    def __init__(self, q):
        self.q = Fraction(q)


class Static:
    def __init__(self, v):
        self.v = v


class Obj:
    def __init__(self, fields, name="obj"):
        self.fields, self.name = dict(fields), name


class Closure:
    def __init__(self, node, scope):
        self.node, self.scope = node, scope


class Method:
    """a method of the class under translation bound to a symbolic `self`: executed symbolically when called"""

    def __init__(self, closure, self_obj):
        self.closure, self.self_obj = closure, self_obj


class Prim:
    """a callable known to the executor: fn(ex, node, args, kwargs) -> value"""

    def __init__(self, fn):
        self.fn = fn


PH = "§"     # placeholder delimiter inside Vec bodies: §0§, §1§ ...


class Vec:
    def __init__(self, ety, bases, body):
        self.ety, self.bases, self.body = ety, list(bases), body   # bases: [(coq list term, ety)]

    @staticmethod
    def base(term, ety):
        return Vec(ety, [(term, ety)], f"{PH}0{PH}")


def fail(node, msg):
    line = getattr(node, "lineno", "?")
    src = ast.unparse(node)[:140] if isinstance(node, ast.AST) else str(node)
    raise TranslateError(f"line {line}: {msg}: {src}")


# ------------------------------------------------------------------------------------------------ printing
CARRIERS = {
    "R": dict(scope="R", leb="Rleb", ltb="Rltb", eqb="Reqb", b2="b2R", min="Rmin", max="Rmax", clip="Rclip", ofZ="IZR", zero="0%R"),
    "Q": dict(scope="Q", leb="Qleb", ltb="Qltb", eqb="Qeqb", b2="b2Q", min="Qmin", max="Qmax", clip="Qclip", ofZ="inject_Z", zero="0%Q"),
}
CFG = dict(CARRIERS["R"])


def set_carrier(name):
    """the carrier real-valued quantities are printed in: 'R' (Coq reals) or 'Q' (rationals, for models written over Q)"""
    CFG.clear()
    CFG.update(CARRIERS[name])


def num_text(q: Fraction, ty):
    if ty == "Z":
        if q.denominator != 1:
            raise TranslateError(f"non-integral literal {q} in integer context")
        return f"({q.numerator})%Z"
    if CFG["scope"] == "Q":
        return f"({q.numerator} # {q.denominator})%Q"
    if q.denominator == 1:
        return f"({q.numerator})%R"
    return f"({q.numerator} / {q.denominator})%R"


def to_sc(v, ty, node=None):
    """coerce a scalar value to type ty in {'R','Z'} (or keep B/K/O)"""
    if isinstance(v, Num):
        return Sc(ty, num_text(v.q, ty))
    if isinstance(v, Sc):
        if v.ty == ty:
            return v
        if v.ty == "Z" and ty == "R":
            return Sc("R", f"({CFG['ofZ']} {v.t})")
    fail(node, f"cannot use {v!r} as {ty}")


ARITH = {"R": {"+": "+", "-": "-", "*": "*", "/": "/"}, "Z": {"+": "+", "-": "-", "*": "*"}}


def sc_bin(op, a, b, node):
    if isinstance(a, Num) and isinstance(b, Num):
        if op == "+":
            return Num(a.q + b.q)
        if op == "-":
            return Num(a.q - b.q)
        if op == "*":
            return Num(a.q * b.q)
        if op == "/":
            return Num(a.q / b.q)
    tys = {x.ty for x in (a, b) if isinstance(x, Sc)}
    if not tys <= {"R", "Z"}:
        fail(node, "arithmetic on a non-numeric value")
    ty = "R" if ("R" in tys or op == "/") else "Z"
    if ty == "Z" and any(isinstance(x, Num) and x.q.denominator != 1 for x in (a, b)):
        ty = "R"
    x, y = to_sc(a, ty, node), to_sc(b, ty, node)
    if op not in ARITH[ty]:
        fail(node, f"operator {op} on {ty}")
    return Sc(ty, f"({x.t} {ARITH[ty][op]} {y.t})%{CFG['scope'] if ty == 'R' else 'Z'}")


def sc_cmp(op, a, b, node):
    if getattr(a, "not_one", False) and isinstance(b, Num) and b.q == 1 and op in ("==", "!="):
        return Static(op == "!=")          # a symbolic count that the specification declares to be different from 1
    if isinstance(a, Num) and isinstance(b, Num):
        return Static({"<=": a.q <= b.q, "<": a.q < b.q, ">=": a.q >= b.q, ">": a.q > b.q, "==": a.q == b.q, "!=": a.q != b.q}[op])
    tys = {x.ty for x in (a, b) if isinstance(x, Sc)}
    if tys == {"B"} and op in ("==", "!="):
        t = f"(Bool.eqb {a.t} {b.t})"
        return Sc("B", t if op == "==" else f"(negb {t})")
    if not tys <= {"R", "Z"}:
        fail(node, "comparison of non-numeric values")
    ty = "R" if "R" in tys or any(isinstance(x, Num) and x.q.denominator != 1 for x in (a, b)) else "Z"
    if not tys:
        ty = "R"
    x, y = to_sc(a, ty, node), to_sc(b, ty, node)
    le, lt, eq = {"R": (CFG["leb"], CFG["ltb"], CFG["eqb"]), "Z": ("Z.leb", "Z.ltb", "Z.eqb")}[ty]
    t = {"<=": f"({le} {x.t} {y.t})", "<": f"({lt} {x.t} {y.t})", ">=": f"({le} {y.t} {x.t})", ">": f"({lt} {y.t} {x.t})",
         "==": f"({eq} {x.t} {y.t})", "!=": f"(negb ({eq} {x.t} {y.t}))"}[op]
    return Sc("B", t)


def is_scalar(v):
    return isinstance(v, (Sc, Num))


# ------------------------------------------------------------------------------------------------ vectors
def vec_of(v, node):
    if isinstance(v, Vec):
        return v
    fail(node, "expected a vector")


def lift(fn, args, node):
    """apply the scalar function fn (on Sc/Num values) pointwise to a mix of scalars and vectors"""
    if not any(isinstance(a, Vec) for a in args):
        return fn(*args)
    bases: list = []
    elems = []
    for a in args:
        if isinstance(a, Vec):
            remap = {}
            for i, (t, ety) in enumerate(a.bases):
                for j, (t2, _) in enumerate(bases):
                    if t2 == t:
                        remap[i] = j
                        break
                else:
                    bases.append((t, ety))
                    remap[i] = len(bases) - 1
            body = a.body
            # two-phase renaming to avoid clashes
            for i in remap:
                body = body.replace(f"{PH}{i}{PH}", f"{PH}n{remap[i]}{PH}")
            body = body.replace(f"{PH}n", PH)
            elems.append(Sc(a.ety, body))
        else:
            elems.append(a)
    if len(bases) > 5:
        # too wide for kzip5: materialise the composite arguments first
        if all((not isinstance(a, Vec)) or len(a.bases) == 1 for a in args):
            fail(node, "pointwise expression over more than 5 base vectors")
        return lift(fn, [rebase(a) if isinstance(a, Vec) and len(a.bases) > 1 else a for a in args], node)
    out = fn(*elems)
    if isinstance(out, Num):
        fail(node, "constant vector")
    return Vec(out.ty, bases, out.t)


def materialise(v: Vec) -> str:
    """Coq list term of a pointwise vector"""
    if len(v.bases) == 1 and v.body == f"{PH}0{PH}":
        return v.bases[0][0]
    n = len(v.bases)
    if n > 5:
        raise TranslateError("pointwise expression over more than 5 base vectors")
    names = [f"e{i}__" for i in range(n)]
    body = v.body
    for i, nm in enumerate(names):
        body = body.replace(f"{PH}{i}{PH}", nm)
    return f"(kzip{n} (fun {' '.join(names)} => {body}) {' '.join(t for t, _ in v.bases)})"


def rebase(v: Vec) -> Vec:
    return Vec.base(materialise(v), v.ety)


# ------------------------------------------------------------------------------------------------ executor
class Executor:
    def __init__(self, prims=None, attr_prims=None, opaque=None):
        self.prims = dict(BUILTIN_PRIMS)
        self.prims.update(prims or {})
        self.opaque = opaque or {}
        self.depth = 0
        self.dyn = 0
        self.opaque_attrs = {}     # attribute name -> Coq projection function, for attributes read from opaque values
        self.obj_methods = {}      # record name -> {method name -> fn(ex, node, receiver, args, kwargs)}

    # ---- expressions
    def dotted(self, n):
        if isinstance(n, ast.Name):
            return n.id
        if isinstance(n, ast.Attribute):
            b = self.dotted(n.value)
            return None if b is None else b + "." + n.attr
        return None

    def expr(self, n, sc):
        if isinstance(n, ast.Constant):
            if isinstance(n.value, bool):
                return Sc("B", "true" if n.value else "false")
            if isinstance(n.value, (int, float)):
                return Num(Fraction(repr(n.value)))
            if n.value is None or isinstance(n.value, str):
                return Static(n.value)
            fail(n, "unsupported constant")
        if isinstance(n, ast.Name):
            if n.id in sc:
                return sc[n.id]
            if n.id in self.prims:
                return self.prims[n.id]
            fail(n, "unknown name")
        if isinstance(n, ast.Attribute):
            d = self.dotted(n)
            if d in self.prims:
                return self.prims[d]
            base = self.expr(n.value, sc)
            if isinstance(base, Obj):
                if n.attr in base.fields:
                    return base.fields[n.attr]
                fail(n, f"unknown field of {base.name}")
            if isinstance(base, Vec) and n.attr == "shape":
                return Static(("len", base))
            if isinstance(base, Sc) and base.ty == "O" and n.attr in self.opaque_attrs:
                return Sc("O", f"({self.opaque_attrs[n.attr]} {base.t})")
            if isinstance(base, Vec) and base.ety == "O" and n.attr in self.opaque_attrs:
                return Sc("O", f"({self.opaque_attrs[n.attr]} {materialise(base)})")
            if isinstance(base, (Sc, Num, Vec)) and n.attr == "dtype":
                return Static("dtype")
            if isinstance(base, (Sc, Num)) and n.attr == "shape":
                return Static(())
            if isinstance(base, (Sc, Num)) and n.attr == "ndim":
                return Num(0)
            if isinstance(base, Vec) and n.attr == "ndim":
                return Num(1)
            fail(n, "unsupported attribute")
        if isinstance(n, ast.Tuple):
            return tuple(self.expr(e, sc) for e in n.elts)
        if isinstance(n, ast.List):
            return [self.expr(e, sc) for e in n.elts]
        if isinstance(n, ast.UnaryOp):
            v = self.expr(n.operand, sc)
            if isinstance(n.op, ast.USub):
                return lift(lambda a: Num(-a.q) if isinstance(a, Num) else sc_bin("-", Num(0), a, n), [v], n)
            if isinstance(n.op, (ast.Invert, ast.Not)):
                if isinstance(v, Static) and isinstance(v.v, bool):
                    return Static(not v.v)
                return lift(lambda a: self.bnot(a, n), [v], n)
            fail(n, "unsupported unary operator")
        if isinstance(n, ast.BinOp):
            a, b = self.expr(n.left, sc), self.expr(n.right, sc)
            if isinstance(n.op, ast.Add) and isinstance(a, Obj) and isinstance(a.fields.get("__add__"), Prim):
                return a.fields["__add__"].fn(self, n, [b], {})
            ops = {ast.Add: "+", ast.Sub: "-", ast.Mult: "*", ast.Div: "/"}
            if type(n.op) in ops:
                return lift(lambda x, y: sc_bin(ops[type(n.op)], x, y, n), [a, b], n)
            if isinstance(n.op, ast.Pow):
                if isinstance(b, Num) and b.q.denominator == 1 and 1 <= b.q <= 4:
                    k = int(b.q)

                    def powk(x):
                        out = x
                        for _ in range(k - 1):
                            out = sc_bin("*", out, x, n)
                        return out
                    return lift(powk, [a], n)
                fail(n, "unsupported power")
            if isinstance(n.op, (ast.BitOr, ast.BitAnd)):
                f = "orb" if isinstance(n.op, ast.BitOr) else "andb"
                return lift(lambda x, y: self.bbin(f, x, y, n), [a, b], n)
            if isinstance(n.op, (ast.Mod, ast.FloorDiv)):
                f = "Z.modulo" if isinstance(n.op, ast.Mod) else "Z.div"

                def zop(x, y):
                    x, y = to_sc(x, "Z", n), to_sc(y, "Z", n)
                    return Sc("Z", f"({f} {x.t} {y.t})")
                return lift(zop, [a, b], n)
            fail(n, "unsupported binary operator")
        if isinstance(n, ast.BoolOp):
            vals = [self.expr(v, sc) for v in n.values]
            f = "orb" if isinstance(n.op, ast.Or) else "andb"
            out = vals[0]
            for v in vals[1:]:
                out = self.bbin(f, out, v, n)
            return out
        if isinstance(n, ast.Compare) and len(n.ops) == 2:
            # a < b < c  ==  (a < b) and (b < c)
            first = ast.Compare(left=n.left, ops=[n.ops[0]], comparators=[n.comparators[0]])
            second = ast.Compare(left=n.comparators[0], ops=[n.ops[1]], comparators=[n.comparators[1]])
            ast.copy_location(first, n); ast.copy_location(second, n)
            a, b = self.expr(first, sc), self.expr(second, sc)
            return lift(lambda x, y: self.bbin("andb", x, y, n), [a, b], n)
        if isinstance(n, ast.Compare):
            if len(n.ops) != 1:
                fail(n, "chained comparison")
            a, b = self.expr(n.left, sc), self.expr(n.comparators[0], sc)
            if isinstance(n.ops[0], (ast.Eq, ast.NotEq)) and isinstance(a, Obj) and isinstance(a.fields.get("__eq__"), Prim):
                r = a.fields["__eq__"].fn(self, n, [b], {})
                return r if isinstance(n.ops[0], ast.Eq) else self.bnot(r, n)
            if isinstance(n.ops[0], (ast.Is, ast.IsNot)):
                if isinstance(b, Static) and b.v is None:
                    r = isinstance(a, Static) and a.v is None
                    return Static(r if isinstance(n.ops[0], ast.Is) else not r)
                fail(n, "unsupported identity test")
            ops = {ast.LtE: "<=", ast.Lt: "<", ast.GtE: ">=", ast.Gt: ">", ast.Eq: "==", ast.NotEq: "!="}
            if type(n.ops[0]) not in ops:
                fail(n, "unsupported comparison")
            if isinstance(a, Static) and isinstance(b, Static) and type(n.ops[0]) in (ast.Eq, ast.NotEq):
                return Static((a.v == b.v) == isinstance(n.ops[0], ast.Eq))
            return lift(lambda x, y: sc_cmp(ops[type(n.ops[0])], x, y, n), [a, b], n)
        if isinstance(n, ast.IfExp):
            c = self.expr(n.test, sc)
            if isinstance(c, Static):
                return self.expr(n.body if c.v else n.orelse, sc)
            a, b = self.expr(n.body, sc), self.expr(n.orelse, sc)
            return self.select(c, a, b, n)
        if isinstance(n, ast.Subscript):
            v = self.expr(n.value, sc)
            s = n.slice
            if is_scalar(v) and not isinstance(s, (ast.Constant, ast.Slice, ast.Tuple)):
                m = self.expr(s, sc)
                if isinstance(m, Sc) and m.ty == "B":
                    return v          # componentwise view of x[mask] (only meaningful inside .at[mask].set(...))
                fail(n, "unsupported subscript of a scalar")
            if isinstance(v, (tuple, list)) and isinstance(s, ast.Constant) and isinstance(s.value, int):
                return v[s.value]
            if isinstance(v, Static) and isinstance(v.v, tuple) and v.v and v.v[0] == "len" and isinstance(s, ast.Constant) and s.value == 0:
                return Sc("Z", f"(Z.of_nat (length {materialise(v.v[1])}))")
            if isinstance(v, Vec) and isinstance(s, ast.Slice) and s.upper is None and s.step is None \
                    and isinstance(s.lower, ast.Constant) and s.lower.value == 1:
                return Vec.base(f"(tl {materialise(v)})", v.ety)
            if isinstance(v, Vec) and isinstance(s, ast.Slice) and s.lower is None and s.step is None and s.upper is not None \
                    and not isinstance(s.upper, (ast.UnaryOp, ast.Constant)):
                up = self.expr(s.upper, sc)
                if isinstance(up, Sc) and up.ty == "Z":
                    return Vec.base(f"(firstn (Z.to_nat {up.t}) {materialise(v)})", v.ety)
                fail(n, "unsupported slice bound")
            if isinstance(v, Vec) and isinstance(s, ast.Slice) and s.lower is None and s.step is None \
                    and isinstance(s.upper, ast.UnaryOp) and isinstance(s.upper.op, ast.USub) \
                    and isinstance(s.upper.operand, ast.Constant) and s.upper.operand.value == 1:
                return Vec.base(f"(removelast {materialise(v)})", v.ety)
            if is_scalar(v) and isinstance(s, ast.Constant) and s.value is None:
                x = v if isinstance(v, Sc) else to_sc(v, "R", n)
                return Vec.base(f"[{x.t}]", x.ty)
            if isinstance(v, Vec) and v.ety == "O" and isinstance(s, ast.Tuple) and len(s.elts) == 2:
                rows, cols = self.expr(s.elts[0], sc), self.expr(s.elts[1], sc)
                if not (isinstance(rows, Vec) and rows.ety == "Z" and materialise(rows).startswith("(kiota ") and isinstance(cols, Vec) and cols.ety == "Z"):
                    fail(n, "unsupported advanced indexing")
                return lift(lambda row, c: Sc("R", f"(nth (Z.to_nat {c.t}) {row.t} {CFG['zero']})"), [v, cols], n)
            if isinstance(v, Vec) and isinstance(s, ast.Constant) and isinstance(s.value, int) and s.value >= 0:
                d = {"R": CFG["zero"], "Z": "0%Z", "B": "false"}[v.ety]
                return Sc(v.ety, f"(nth {s.value} {materialise(v)} {d})")
            fail(n, "unsupported subscript")
        if isinstance(n, ast.Dict):
            if not all(isinstance(k, ast.Constant) and isinstance(k.value, str) for k in n.keys):
                fail(n, "dict with non-literal keys")
            return {k.value: self.expr(v, sc) for k, v in zip(n.keys, n.values)}
        if isinstance(n, ast.DictComp) and len(n.generators) == 1 and not n.generators[0].ifs:
            g = n.generators[0]
            src = g.iter
            if not (isinstance(src, ast.Call) and isinstance(src.func, ast.Attribute) and src.func.attr == "items" and not src.args):
                fail(n, "unsupported dict comprehension")
            d = self.expr(src.func.value, sc)
            if not isinstance(d, dict):
                fail(n, "dict comprehension over a non-dict")
            out = {}
            for k, v in d.items():
                s2 = dict(sc)
                self.bind(g.target, (Static(k), v), s2)
                kk = self.expr(n.key, s2)
                if not (isinstance(kk, Static) and isinstance(kk.v, str)):
                    fail(n, "dict comprehension key is not a static string")
                out[kk.v] = self.expr(n.value, s2)
            return out
        if isinstance(n, ast.JoinedStr):
            parts = []
            for v in n.values:
                if isinstance(v, ast.Constant):
                    parts.append(str(v.value))
                elif isinstance(v, ast.FormattedValue):
                    x = self.expr(v.value, sc)
                    if not isinstance(x, Static):
                        fail(n, "f-string over a non-static value")
                    parts.append(str(x.v))
            return Static("".join(parts))
        if isinstance(n, ast.Lambda):
            return Closure(n, sc)
        if isinstance(n, ast.Call):
            return self.call(n, sc)
        fail(n, "unsupported expression")

    def bnot(self, a, n):
        if isinstance(a, Sc) and a.ty == "B":
            return Sc("B", f"(negb {a.t})")
        fail(n, "logical not of a non-boolean")

    def bbin(self, f, a, b, n):
        if isinstance(a, Sc) and isinstance(b, Sc) and a.ty == b.ty == "B":
            return Sc("B", f"({f} {a.t} {b.t})")
        fail(n, "logical operator on non-booleans")

    def select(self, c, a, b, n):
        """jnp.where / lax.select / lax.cond on values (componentwise on tuples and objects)"""
        if isinstance(a, tuple) and isinstance(b, tuple) and len(a) == len(b):
            return tuple(self.select(c, x, y, n) for x, y in zip(a, b))
        # an object that also stands for an opaque value (e.g. a policy with callable methods) takes part in a select as that value
        # (the result keeps the object's methods: they are oracles that do not depend on which value is selected)
        if isinstance(a, Obj) and isinstance(b, Obj) and "@rebuild" in a.fields and "@rebuild" in b.fields:
            return a.fields["@rebuild"](self.select(c, a.fields["@name"], b.fields["@name"], n).t)
        for x, y in ((a, b), (b, a)):
            if isinstance(x, Obj) and "@name" in x.fields and isinstance(y, Sc):
                a2 = a.fields["@name"] if a is x else a
                b2 = b.fields["@name"] if b is x else b
                return Obj({**x.fields, "@name": self.select(c, a2, b2, n)}, x.name)
        if isinstance(a, Obj) and isinstance(b, Obj) and set(a.fields) == set(b.fields):
            return Obj({k: self.select(c, a.fields[k], b.fields[k], n) for k in a.fields}, a.name)

        def sel(cc, x, y):
            if not (isinstance(cc, Sc) and cc.ty == "B"):
                fail(n, "condition is not boolean")
            if isinstance(x, Num) and isinstance(y, Num):
                x, y = to_sc(x, "R", n), to_sc(y, "R", n)
            elif isinstance(x, Num):
                x = to_sc(x, y.ty, n)
            elif isinstance(y, Num):
                y = to_sc(y, x.ty, n)
            if x.ty != y.ty:
                if {x.ty, y.ty} == {"R", "Z"}:
                    x, y = to_sc(x, "R", n), to_sc(y, "R", n)
                else:
                    fail(n, "branches of different types")
            return Sc(x.ty, f"(if {cc.t} then {x.t} else {y.t})")
        return lift(sel, [c, a, b], n)

    # ---- calls
    def call(self, n, sc):
        # leaf.at[idx].set(value)
        f = n.func
        if (isinstance(f, ast.Attribute) and f.attr == "set" and isinstance(f.value, ast.Subscript)
                and isinstance(f.value.value, ast.Attribute) and f.value.value.attr == "at" and len(n.args) == 1 and not n.keywords):
            leaf = self.expr(f.value.value.value, sc)
            idx = self.expr(f.value.slice, sc)
            val = self.expr(n.args[0], sc)
            if is_scalar(leaf) and isinstance(idx, Sc) and idx.ty == "B" and is_scalar(val):
                # componentwise view of x.at[mask].set(v[mask]): where(mask, v, x)
                return self.select(idx, val, leaf, n)
            if not (isinstance(leaf, Vec) and is_scalar(idx) and is_scalar(val)):
                fail(n, "unsupported indexed update")
            i = to_sc(idx, "Z", n)
            v = val if (isinstance(val, Sc) and val.ty == leaf.ety) else to_sc(val, leaf.ety, n)
            return Vec.base(f"(upd {materialise(leaf)} (Z.to_nat {i.t}) {v.t})", leaf.ety)
        # method calls on values: x.astype(float), x.sum(), x.mean()
        if isinstance(n.func, ast.Attribute) and self.dotted(n.func) not in self.prims:
            recv_name = self.dotted(n.func.value)
            if not (recv_name in self.prims):
                try_recv = True
            else:
                try_recv = False
            if try_recv:
                recv = self.expr(n.func.value, sc)
                if isinstance(recv, (Sc, Num, Vec)):
                    return self.method(n, recv, n.func.attr, n.args, sc)
                if isinstance(recv, Obj) and n.func.attr in recv.fields:
                    f = recv.fields[n.func.attr]
                    return self.apply(f, n, sc)
                if isinstance(recv, Obj) and n.func.attr in self.obj_methods.get(recv.name, {}):
                    args = [self.expr(a, sc) for a in n.args]
                    kwargs = {k.arg: self.expr(k.value, sc) for k in n.keywords}
                    return self.obj_methods[recv.name][n.func.attr](self, n, recv, args, kwargs)
                fail(n, "unsupported method call")
        f = self.expr(n.func, sc)
        return self.apply(f, n, sc)

    def apply(self, f, n, sc):
        args = [self.expr(a, sc) for a in n.args]
        kwargs = {k.arg: self.expr(k.value, sc) for k in n.keywords}
        if any(k.arg is None for k in n.keywords):
            fail(n, "**kwargs")
        if isinstance(f, Prim):
            return f.fn(self, n, args, kwargs)
        if isinstance(f, Closure):
            return self.invoke(f, args, kwargs, n)
        if isinstance(f, Method):
            return self.invoke(f.closure, [f.self_obj] + list(args), kwargs, n)
        if isinstance(f, Obj) and isinstance(f.fields.get("__call__"), Prim):
            return f.fields["__call__"].fn(self, n, args, kwargs)
        fail(n, "call of an unknown function")

    def invoke(self, f: Closure, args, kwargs, n):
        self.depth += 1
        if self.depth > 8:
            fail(n, "call depth")
        node = f.node
        a = node.args
        if a.vararg or a.kwarg or a.posonlyargs:
            fail(node, "unsupported signature")
        names = [x.arg for x in a.args]
        scope = dict(f.scope)
        defaults = dict(zip(names[len(names) - len(a.defaults):], a.defaults))
        for i, nm in enumerate(names):
            if i < len(args):
                scope[nm] = args[i]
            elif nm in kwargs:
                scope[nm] = kwargs[nm]
            elif nm in defaults:
                scope[nm] = self.expr(defaults[nm], f.scope)
            else:
                fail(n, f"missing argument {nm}")
        for kw, d in zip(a.kwonlyargs, a.kw_defaults):
            if kw.arg in kwargs:
                scope[kw.arg] = kwargs[kw.arg]
            elif d is not None:
                scope[kw.arg] = self.expr(d, f.scope)
            else:
                fail(n, f"missing keyword argument {kw.arg}")
        if len(args) > len(names):
            fail(n, "too many arguments")
        if isinstance(node, ast.Lambda):
            out = self.expr(node.body, scope)
        else:
            out = self.block(node.body, scope)
            if out is None:
                fail(node, "function without return")
        self.depth -= 1
        return out

    def method(self, n, recv, name, args, sc):
        if name == "astype":
            target = ast.unparse(n.args[0]) if n.args else None

            def cast(x):
                if target in ("float", "jnp.float32", "jnp.float64"):
                    if isinstance(x, Num):
                        return x
                    if x.ty == "B":
                        return Sc("R", f"({CFG['b2']} {x.t})")
                    return to_sc(x, "R", n)
                if target in ("int", "jnp.int32", "jnp.int64"):
                    if isinstance(x, Num):
                        return x
                    if x.ty == "B":
                        return Sc("Z", f"(b2Z {x.t})")
                    if x.ty == "Z":
                        return x
                if target in ("bool",) and isinstance(x, Sc) and x.ty == "B":
                    return x
                fail(n, "unsupported cast")
            return lift(cast, [recv], n)
        if name == "squeeze" and is_scalar(recv) and not args:
            return recv
        if name in ("sum", "mean") and isinstance(recv, Vec) and not args:
            return reduce_vec(name, recv, n)
        if name == "reshape" and isinstance(recv, Vec) and len(args) == 2 and ast.unparse(args[0]) == "-1":
            b = self.expr(args[1], sc)
            if isinstance(b, Sc) and b.ty == "Z":
                return Sc("O", f"(kreshape (Z.to_nat {b.t}) {materialise(recv)})")
            fail(n, "unsupported reshape")
        fail(n, f"unsupported method {name}")

    # ---- statements
    def block(self, stmts, sc):
        """execute statements; returns the returned value or None"""
        for i, s in enumerate(stmts):
            if isinstance(s, ast.Expr) and isinstance(s.value, ast.Constant) and isinstance(s.value.value, str):
                continue
            if isinstance(s, (ast.Pass, ast.Assert)):
                continue          # assertions constrain the inputs (preconditions); they do not change the result
            if isinstance(s, ast.Return):
                if s.value is None:
                    fail(s, "bare return")
                return self.expr(s.value, sc)
            if isinstance(s, ast.Assign):
                if len(s.targets) != 1:
                    fail(s, "multiple assignment targets")
                self.bind(s.targets[0], self.expr(s.value, sc), sc)
                continue
            if isinstance(s, ast.AnnAssign) and s.value is not None:
                self.bind(s.target, self.expr(s.value, sc), sc)
                continue
            if isinstance(s, ast.FunctionDef):
                if s.decorator_list:
                    fail(s, "decorated nested function")
                sc[s.name] = Closure(s, sc)
                continue
            if isinstance(s, ast.If):
                c = self.expr(s.test, sc)
                if isinstance(c, Static):
                    r = self.block(s.body if c.v else s.orelse, sc)
                    if r is not None:
                        return r
                    continue
                if not (isinstance(c, Sc) and c.ty == "B"):
                    fail(s, "condition is neither static nor a boolean scalar")
                s1, s2 = dict(sc), dict(sc)
                self.dyn += 1
                r1, r2 = self.block(s.body, s1), self.block(s.orelse, s2)
                self.dyn -= 1
                if (r1 is None) != (r2 is None):
                    # `if c: return a` followed by the rest: treat the rest as the else branch
                    if r1 is not None and not s.orelse:
                        r2 = self.block(stmts[i + 1:], s2)
                        if r2 is None:
                            fail(s, "missing return after conditional return")
                        return self.select(c, r1, r2, s)
                    fail(s, "return in one branch only")
                if r1 is not None:
                    return self.select(c, r1, r2, s)
                for k in set(s1) | set(s2):
                    if s1.get(k) is not s2.get(k):
                        if k not in s1 or k not in s2:
                            sc.pop(k, None)       # bound in one branch only: not usable afterwards
                            continue
                        sc[k] = self.select(c, s1[k], s2[k], s)
                continue
            if (isinstance(s, ast.Expr) and isinstance(s.value, ast.Call) and isinstance(s.value.func, ast.Attribute)
                    and s.value.func.attr == "append" and len(s.value.args) == 1 and not s.value.keywords):
                lst = self.expr(s.value.func.value, sc)
                if not isinstance(lst, list):
                    fail(s, "append to a non-list")
                if self.dyn:
                    fail(s, "list mutation under a dynamic condition")
                lst.append(self.expr(s.value.args[0], sc))
                continue
            if isinstance(s, ast.Expr) and isinstance(s.value, ast.Call):
                if self.dyn:
                    fail(s, "call for effect under a dynamic condition")
                self.expr(s.value, sc)        # a call made for its effect: only oracles of the specification have effects
                continue
            if isinstance(s, ast.For) and not s.orelse:
                it = s.iter
                if isinstance(it, ast.Call) and isinstance(it.func, ast.Name) and it.func.id == "zip" and not it.keywords:
                    seqs = [self.expr(a, sc) for a in it.args]
                    if not all(isinstance(q, (list, tuple)) for q in seqs) or len({len(q) for q in seqs}) != 1:
                        fail(s, "zip over sequences of unknown or different lengths")
                    items = [tuple(q[i] for q in seqs) for i in range(len(seqs[0]))]
                else:
                    seq = self.expr(it, sc)
                    if not isinstance(seq, (list, tuple)):
                        fail(s, "loop over a non-static sequence")
                    items = list(seq)
                for item in items:
                    self.bind(s.target, item, sc)
                    r = self.block(s.body, sc)
                    if r is not None:
                        fail(s, "return inside a loop")
                continue
            if isinstance(s, ast.Raise):
                return None if False else fail(s, "raise reached")
            fail(s, "unsupported statement")
        return None

    def bind(self, target, v, sc):
        if isinstance(target, ast.Subscript) and isinstance(target.slice, ast.Constant) and isinstance(target.slice.value, str):
            d = self.expr(target.value, sc)
            if not isinstance(d, dict) or self.dyn:
                fail(target, "item assignment into something else than a static dict")
            d[target.slice.value] = v
            return
        if isinstance(target, ast.Name):
            sc[target.id] = v
            return
        if isinstance(target, (ast.Tuple, ast.List)):
            if not isinstance(v, (tuple, list)) or len(v) != len(target.elts):
                fail(target, "cannot unpack")
            for t, x in zip(target.elts, v):
                self.bind(t, x, sc)
            return
        fail(target, "unsupported assignment target")


# ------------------------------------------------------------------------------------------------ primitives
def reduce_vec(kind, v, n):
    if isinstance(v, Vec) and v.ety == "B" and kind == "sum":
        return Sc("Z", f"(kcount {materialise(v)})")
    if isinstance(v, Vec) and v.ety == "R" and CFG["scope"] == "Q" and kind == "sum":
        return Sc("R", f"(ksumQ {materialise(v)})")
    if isinstance(v, Vec) and v.ety == "R" and CFG["scope"] == "Q" and kind == "mean":
        return Sc("R", f"(kmeanQ {materialise(v)})")
    if isinstance(v, Vec) and v.ety == "Z" and kind == "sum":
        return Sc("Z", f"(ksumZ {materialise(v)})")
    if not isinstance(v, Vec) or v.ety != "R" or CFG["scope"] != "R":
        fail(n, "reduction of a non-real vector")
    return Sc("R", f"({'kmean' if kind == 'mean' else 'ksum'} {materialise(v)})")


def _p_identity(ex, n, args, kwargs):
    return args[0]


def _p_array(ex, n, args, kwargs):
    for k in kwargs:
        if k != "dtype":
            fail(n, "unsupported keyword")
    v = args[0]
    dt = ast.unparse([k.value for k in n.keywords if k.arg == "dtype"][0]) if "dtype" in kwargs else None
    if isinstance(v, Num) and dt in ("int",):
        return to_sc(v, "Z", n)
    return v


def _unop(name_r):
    def f(ex, n, args, kwargs):
        if len(args) != 1 or kwargs:
            fail(n, "arity")
        if CFG["scope"] != "R":
            fail(n, "transcendental function outside the real carrier")
        return lift(lambda x: Sc("R", f"({name_r} {to_sc(x, 'R', n).t})"), args, n)
    return f


def _p_square(ex, n, args, kwargs):
    return lift(lambda x: sc_bin("*", x, x, n), args, n)


def _binfn(rname, zname=None):
    def f(ex, n, args, kwargs):
        if len(args) != 2 or kwargs:
            fail(n, "arity")

        def g(x, y):
            tys = {v.ty for v in (x, y) if isinstance(v, Sc)}
            if tys == {"Z"} and zname and not any(isinstance(v, Num) and v.q.denominator != 1 for v in (x, y)):
                return Sc("Z", f"({zname} {to_sc(x, 'Z', n).t} {to_sc(y, 'Z', n).t})")
            return Sc("R", f"({CFG[rname]} {to_sc(x, 'R', n).t} {to_sc(y, 'R', n).t})")
        return lift(g, args, n)
    return f


def _p_clip(ex, n, args, kwargs):
    a = list(args)
    for k in ("min", "max", "a_min", "a_max"):
        if k in kwargs:
            a.append(kwargs[k])
    if len(a) != 3:
        fail(n, "clip arity")
    return lift(lambda x, lo, hi: Sc("R", f"({CFG['clip']} {to_sc(x, 'R', n).t} {to_sc(lo, 'R', n).t} {to_sc(hi, 'R', n).t})"), a, n)


def _p_where(ex, n, args, kwargs):
    if len(args) != 3 or kwargs:
        fail(n, "where arity")
    return ex.select(args[0], args[1], args[2], n)


def _p_cond(ex, n, args, kwargs):
    if len(args) != 3 or kwargs:
        fail(n, "lax.cond with operands is not supported")
    c, f1, f2 = args
    if not (isinstance(f1, Closure) and isinstance(f2, Closure)):
        fail(n, "lax.cond branches must be inline functions")
    return ex.select(c, ex.invoke(f1, [], {}, n), ex.invoke(f2, [], {}, n), n)


def _p_mean(ex, n, args, kwargs):
    if len(args) != 1 or kwargs:
        fail(n, "reduction with axis")
    return reduce_vec("mean", args[0], n)


def _p_sum(ex, n, args, kwargs):
    if len(args) != 1 or kwargs:
        fail(n, "reduction with axis")
    return reduce_vec("sum", args[0], n)


def _p_concatenate(ex, n, args, kwargs):
    if len(args) != 1 or not isinstance(args[0], (tuple, list)):
        fail(n, "concatenate")
    if "axis" in kwargs and not (isinstance(kwargs["axis"], Num) and kwargs["axis"].q == 0):
        fail(n, "concatenate axis")
    vs = [vec_of(v, n) for v in args[0]]
    if len({v.ety for v in vs}) != 1:
        fail(n, "concatenate of different element types")
    return Vec.base("(" + " ++ ".join(materialise(v) for v in vs) + ")", vs[0].ety)


def _p_scan(ex, n, args, kwargs):
    """lax.scan(f, init, xs, reverse=?) over real vectors with a real scalar carry"""
    if len(args) != 3:
        fail(n, "scan arity")
    f, init, xs = args
    if isinstance(xs, Vec) and xs.ety == "K":
        return _p_filter_scan(ex, n, args, kwargs)
    rev = kwargs.get("reverse")
    reverse = isinstance(rev, Sc) and rev.t == "true"
    if set(kwargs) - {"reverse"}:
        fail(n, "unsupported scan keyword")
    if not isinstance(f, Closure):
        fail(n, "scan body must be an inline function")
    single = isinstance(xs, Vec)
    if not single and not isinstance(xs, (tuple, list)):
        fail(n, "scan inputs")
    vs = [xs] if single else [vec_of(v, n) for v in xs]
    if not 1 <= len(vs) <= 3 or any(v.ety != "R" for v in vs):
        fail(n, "scan over unsupported inputs")
    c0 = to_sc(init, "R", n)
    xnames = [f"x{i}__{ex.depth}" for i in range(len(vs))]
    cname = f"c__{ex.depth}"
    xv = [Sc("R", nm) for nm in xnames]
    out = ex.invoke(f, [Sc("R", cname), xv[0] if single else tuple(xv)], {}, n)
    if not (isinstance(out, tuple) and len(out) == 2):
        fail(n, "scan body must return (carry, output)")
    nc, o = to_sc(out[0], "R", n), to_sc(out[1], "R", n)
    fn = f"(fun {cname} {' '.join(xnames)} => ({nc.t}, {o.t}))"
    t = f"(kscan{'r' if reverse else 'l'}{len(vs)} {fn} {c0.t} {' '.join(materialise(v) for v in vs)})"
    return (Sc("R", f"(fst {t})"), Vec.base(f"(snd {t})", "R"))


def _tuple_term(ts):
    return ts[0] if len(ts) == 1 else "(" + ", ".join(ts) + ")"


def _flat_fields(v, n, what):
    """ordered (name, Sc) fields of a record-like value whose fields are all scalars / opaque terms"""
    if isinstance(v, Sc):
        return [("", v)]
    if isinstance(v, Static) and v.v is None:
        return []
    if isinstance(v, tuple):
        out = []
        for i, x in enumerate(v):
            if isinstance(x, Num):
                x = to_sc(x, "R", n)
            if not isinstance(x, Sc):
                fail(n, f"{what}: component {i} is not a scalar value")
            out.append((str(i), x))
        return out
    if isinstance(v, Obj):
        out = []
        for k in sorted(v.fields):
            x = v.fields[k]
            if isinstance(x, Num):
                x = to_sc(x, "R", n)
            if isinstance(x, Static) and x.v is None:
                continue
            if isinstance(x, Obj) and isinstance(x.fields.get("@name"), Sc):
                x = x.fields["@name"]          # an object that stands for an opaque value (it keeps its methods, see below)
            if not isinstance(x, Sc):
                fail(n, f"{what}: field {k} is not a scalar value")
            out.append((k, x))
        return out
    fail(n, f"{what}: unsupported structure")


def _p_filter_scan(ex, n, args, kwargs):
    """filter_scan(f, init, keys) over a symbolic vector of keys with a record-like carry: printed as kfoldmap"""
    if len(args) != 3 or kwargs or not isinstance(args[0], Closure):
        fail(n, "filter_scan form")
    f, init, keys = args
    if not (isinstance(keys, Vec) and keys.ety in ("K", "O")):
        fail(n, "filter_scan over something else than a vector of keys / opaque rows")
    d = ex.depth
    cf = _flat_fields(init, n, "scan carry")
    names = [f"c{i}__{d}" for i in range(len(cf))]
    def like(k, sc_new):
        """a carried field that was an object-with-a-name keeps its methods around the new value"""
        old = init.fields.get(k) if isinstance(init, Obj) else None
        if isinstance(old, Obj) and "@name" in old.fields:
            return Obj({**old.fields, "@name": sc_new}, old.name)
        return sc_new
    if isinstance(init, tuple):
        carry = tuple(Sc(v.ty, nm) for (k, v), nm in zip(cf, names))
    else:
        carry = Obj({k: like(k, Sc(v.ty, nm)) for (k, v), nm in zip(cf, names)}, getattr(init, "name", "carry")) if isinstance(init, Obj) else Sc(cf[0][1].ty, names[0])
    if isinstance(init, Obj):
        for k, v in init.fields.items():      # static (None) fields are carried as they are
            if k not in carry.fields:
                carry.fields[k] = v
    out = ex.invoke(f, [carry, Sc(keys.ety, f"k__{d}")], {}, n)
    if not (isinstance(out, tuple) and len(out) == 2):
        fail(n, "scan body must return (carry, output)")
    c2 = _flat_fields(out[0], n, "scan carry")
    if [k for k, _ in c2] != [k for k, _ in cf]:
        fail(n, "scan body changes the structure of the carry")
    o2 = _flat_fields(out[1], n, "scan output")
    body = f"({_tuple_term([v.t for _, v in c2])}, {_tuple_term([v.t for _, v in o2]) if o2 else 'tt'})"
    fn = f"(fun c__{d} k__{d} => let '{_tuple_term(names)} := c__{d} in {body})"
    T = f"(kfoldmapi {_tuple_term([v.t for _, v in cf])} {materialise(keys)} {fn})"

    def proj(i, m, of):
        vs = [f"p{j}__" for j in range(m)]
        return f"(let '{_tuple_term(vs)} := {of} in {vs[i]})"
    fin = {k: like(k, Sc(v.ty, proj(i, len(cf), f"(fst {T})"))) for i, (k, v) in enumerate(cf)}
    if isinstance(init, tuple):
        final = tuple(fin[str(i)] for i in range(len(cf)))
    else:
        final = Obj(dict(getattr(init, "fields", {}), **fin), getattr(init, "name", "carry")) if isinstance(init, Obj) else fin[""]
    if not o2:
        return (final, Static(None))
    ovs = [f"o{j}__" for j in range(len(o2))]
    if len(o2) == 1:
        outs = {o2[0][0]: Vec.base(f"(snd {T})", o2[0][1].ty)}
        return (final, Obj(outs, getattr(out[1], "name", "rows")) if isinstance(out[1], Obj) else outs[o2[0][0]])
    outs = {k: Vec.base(f"(map (fun r__ => let '{_tuple_term(ovs)} := r__ in {ovs[i]}) (snd {T}))", v.ty) for i, (k, v) in enumerate(o2)}
    return (final, Obj(outs, getattr(out[1], "name", "rows")) if isinstance(out[1], Obj) else outs[""])


def _p_split(ex, n, args, kwargs):
    if kwargs:
        fail(n, "split keywords")
    k = args[0]
    if not (isinstance(k, Sc) and k.ty == "K"):
        fail(n, "split of a non-key")
    cnt = 2
    if len(args) == 2:
        if isinstance(args[1], Sc) and args[1].ty == "Z":
            # a symbolic number of keys: the vector jr.split(key, n) as the list of key paths split_keys k n
            return Vec.base(f"(ksplit_keys {k.t} (Z.to_nat {args[1].t}))", "K")
        if not (isinstance(args[1], Num) and args[1].q.denominator == 1):
            fail(n, "split count must be a literal")
        cnt = int(args[1].q)
    return tuple(Sc("K", f"(ks {k.t} {cnt} {i})") for i in range(cnt))


def _p_tree_map(ex, n, args, kwargs):
    """jax.tree.map(f, *trees): every pytree argument is modelled as ONE leaf (f is applied leaf-wise by JAX)"""
    if kwargs or len(args) < 2 or not isinstance(args[0], Closure):
        fail(n, "tree.map form")
    return ex.invoke(args[0], list(args[1:]), {}, n)


def _p_arange(ex, n, args, kwargs):
    if kwargs or len(args) != 1 or not is_scalar(args[0]):
        fail(n, "arange form")
    return Vec.base(f"(kiota {to_sc(args[0], 'Z', n).t})", "Z")


def _p_vmap(ex, n, args, kwargs):
    """jax.vmap(f): f is either a batch-level oracle of the specification (returned unchanged) or an inline function that is
    applied pointwise"""
    if kwargs or len(args) != 1:
        fail(n, "vmap with axes")
    f = args[0]
    if isinstance(f, Prim):
        return f
    if isinstance(f, Closure):
        def mapped(ex2, n2, a2, k2):
            if k2 or not a2 or not all(isinstance(v, Vec) for v in a2):
                fail(n2, "vmapped call form")

            def one(*els):
                out = ex2.invoke(f, list(els), {}, n2)
                if not isinstance(out, (Sc, Num)):
                    fail(n2, "vmapped function must return a scalar")
                return out
            return lift(one, list(a2), n2)
        return Prim(mapped)
    fail(n, "vmap of an unsupported function")


def _p_argmax(ex, n, args, kwargs):
    ax = kwargs.get("axis")
    if len(args) != 1 or not (isinstance(ax, Num) and ax.q == -1) or not (isinstance(args[0], Vec) and args[0].ety == "O"):
        fail(n, "argmax form")
    return lift(lambda row: Sc("Z", f"(kargmax {row.t})"), args, n)


def _p_error_if(ex, n, args, kwargs):
    return args[0]


def _p_isfinite(ex, n, args, kwargs):
    return lift(lambda x: Sc("B", "true"), args, n) if isinstance(args[0], Vec) else Sc("B", "true")


BUILTIN_PRIMS = {
    "jnp.asarray": Prim(_p_array), "jnp.array": Prim(_p_array),
    "jnp.exp": Prim(_unop("exp")), "jnp.abs": Prim(_unop("Rabs")), "jnp.sqrt": Prim(_unop("sqrt")),
    "jnp.sin": Prim(_unop("sin")), "jnp.cos": Prim(_unop("cos")), "jnp.log": Prim(_unop("ln")),
    "jnp.square": Prim(_p_square),
    "jnp.minimum": Prim(_binfn("min", "Z.min")), "jnp.maximum": Prim(_binfn("max", "Z.max")),
    "jnp.clip": Prim(_p_clip), "jnp.where": Prim(_p_where), "lax.select": Prim(_p_where), "lax.cond": Prim(_p_cond),
    "jnp.mean": Prim(_p_mean), "jnp.sum": Prim(_p_sum), "jnp.concatenate": Prim(_p_concatenate),
    "lax.scan": Prim(_p_scan), "jax.lax.scan": Prim(_p_scan), "jax.lax.cond": Prim(_p_cond), "filter_scan": Prim(_p_filter_scan), "jr.split": Prim(_p_split), "jax.random.split": Prim(_p_split),
    "eqx.error_if": Prim(_p_error_if), "jax.tree.map": Prim(_p_tree_map), "jax.tree_util.tree_map": Prim(_p_tree_map),
    "jnp.arange": Prim(_p_arange), "jax.vmap": Prim(_p_vmap), "jnp.argmax": Prim(_p_argmax),
    "jax.lax.stop_gradient": Prim(_p_identity), "lax.stop_gradient": Prim(_p_identity), "jnp.isfinite": Prim(_p_isfinite),
    "jnp.logical_or": Prim(lambda ex, n, a, k: lift(lambda x, y: ex.bbin("orb", x, y, n), a, n)),
    "jnp.logical_and": Prim(lambda ex, n, a, k: lift(lambda x, y: ex.bbin("andb", x, y, n), a, n)),
    "jnp.logical_not": Prim(lambda ex, n, a, k: lift(lambda x: ex.bnot(x, n), a, n)),
    "jnp.ones_like": Prim(lambda ex, n, a, k: Num(1) if len(a) == 1 and is_scalar(a[0]) else fail(n, "ones_like of a non-scalar")),
    "jnp.zeros_like": Prim(lambda ex, n, a, k: Num(0) if len(a) == 1 and is_scalar(a[0]) else fail(n, "zeros_like of a non-scalar")),
    "jnp.broadcast_to": Prim(lambda ex, n, a, k: a[0] if len(a) == 2 and not k else fail(n, "broadcast_to form")),
    "jnp.isinf": Prim(lambda ex, n, a, k: Sc("B", "false") if len(a) == 1 and is_scalar(a[0]) else fail(n, "isinf of a non-scalar")),
    "jnp.all": Prim(lambda ex, n, a, k: a[0]),
    "jnp.array_equal": Prim(lambda ex, n, a, k: sc_cmp("==", a[0], a[1], n) if len(a) == 2 and not k and is_scalar(a[0]) and is_scalar(a[1]) else fail(n, "array_equal of non-scalars")),
    "jnp.floor": Prim(lambda ex, n, a, k: Sc("R", f"(inject_Z (Qfloor {to_sc(a[0], 'R', n).t}))") if CFG["scope"] == "Q" and len(a) == 1 and is_scalar(a[0])
                      else fail(n, "floor outside the rational carrier")),
    "jnp.nan": Static("nan"), "jnp.pi": Sc("R", "PI"), "float": Static("float"), "int": Static("int"), "bool": Static("bool"),
}


# ------------------------------------------------------------------------------------------------ source access
def find_function(path: Path, cls: str | None, func: str):
    src = path.read_text()
    tree = ast.parse(src)
    body = tree.body
    if cls is not None:
        cs = [n for n in body if isinstance(n, ast.ClassDef) and n.name == cls]
        if len(cs) != 1:
            raise TranslateError(f"{path}: class {cls} not found")
        body = cs[0].body
    node = None
    for part in func.split("/"):
        fs = [n for n in body if isinstance(n, ast.FunctionDef) and n.name == part]
        if len(fs) != 1:
            raise TranslateError(f"{path}: function {func} not found in {cls or 'module'}")
        node = fs[0]
        body = node.body
    return node, hashlib.sha256(src.encode()).hexdigest()[:16]


def run_function(ex: Executor, fn: ast.FunctionDef, bindings: dict, module_scope=None):
    """execute fn with its parameters bound as in `bindings` (every parameter must be bound)"""
    a = fn.args
    names = [x.arg for x in a.args] + [x.arg for x in a.kwonlyargs]
    missing = [nm for nm in names if nm not in bindings]
    if missing or a.vararg or a.kwarg:
        raise TranslateError(f"{fn.name}: parameters {missing} are not described by the kernel specification")
    extra = [nm for nm in bindings if nm not in names and not nm.startswith("@")]
    if extra:
        raise TranslateError(f"{fn.name}: the kernel specification binds {extra}, which the function no longer takes")
    scope = dict(module_scope or {})
    scope.update({k: v for k, v in bindings.items() if not k.startswith("@")})
    out = ex.block(fn.body, scope)
    if out is None:
        return Static(None)       # a procedure: what it does is recorded by the oracles of the specification
    return out


def term_of(v, ty=None):
    """Coq term of a result value"""
    if isinstance(v, Vec):
        return materialise(v)
    if isinstance(v, Num):
        return num_text(v.q, ty or "R")
    if isinstance(v, Sc):
        return to_sc(v, ty).t if ty and ty != v.ty else v.t
    if isinstance(v, tuple):
        return "(" + ", ".join(term_of(x) for x in v) + ")"
    raise TranslateError(f"cannot print {v!r}")
