"""C12 — JAX transformations are transparent; parallel environments never mix.
Tie: (a) N-environment collections (filter_vmap as in iteration()) vs N independent single-environment
collections of the REAL code from the same per-environment keys and start states (bitwise), and vs the Coq
model; same for off-policy collection; (b) eager vs jit vs vmap of the functional components of the
built-in environments and wrappers (float32, tolerance as the property allows reassociation)."""
from __future__ import annotations

import numpy as np

from harness.common import Violation, release_jit, run_main, setup_jax

jax = setup_jax(x64=True)
import equinox as eqx  # noqa: E402
import jax.numpy as jnp  # noqa: E402
import jax.random as jr  # noqa: E402

from lerax.algorithm import DQN, PPO  # noqa: E402
from lerax.algorithm.on_policy import AbstractOnPolicyStepState  # noqa: E402
from lerax.callback import CallbackList  # noqa: E402

from harness.builtin_step import report  # noqa: E402
from harness.rollout_cases import PREAMBLE, _ALLOW, RecCallback, gen_rollout_case  # noqa: E402
from harness.stubs import TabEnv, TabPolicy, TabPState, build_stack, random_ptab, random_stack, random_tab, rebuild_state  # noqa: E402


def tree_equal_bits(a, b):
    la, lb = jax.tree.leaves(a), jax.tree.leaves(b)
    return len(la) == len(lb) and all(np.array_equal(np.asarray(x), np.asarray(y), equal_nan=True) for x, y in zip(la, lb))


def real_vs_real(ck, rng, n):
    """vmapped collection vs N scalar collections of the real code (on-policy PPO and off-policy DQN)"""
    for idx in range(n):
        spec = random_tab(rng, box_obs=False, trunc_rate=0.08, term_rate=0.15)
        stack, asp, osp = random_stack(rng, spec, depth=int(rng.integers(0, 3)), allow=_ALLOW)
        pspec = random_ptab(rng, spec, asp, int(spec["osp"][1]))
        env = build_stack(TabEnv(spec), stack)
        policy = TabPolicy(pspec, env.action_space, env.observation_space)
        N = int(rng.integers(2, 5)); T = int(rng.integers(2, 8))
        nlim = sum(1 for d in stack if d[0] == "TimeLimit"); S = len(spec["P"])
        starts = [([int(rng.integers(0, 4)) for _ in range(nlim)], int(rng.integers(0, S)), int(rng.integers(0, pspec["NH"]))) for _ in range(N)]
        root = jr.key(int(rng.integers(0, 2**31))); keys = jr.split(root, N)
        ck.current_case = {"spec": spec, "stack": stack, "pspec": pspec, "N": N, "T": T, "starts": starts}
        # on-policy
        algo = PPO(num_envs=N, num_steps=T, gamma=0.5, gae_lambda=0.5, num_epochs=1, num_batches=1)
        cb = RecCallback(T)
        sts = [AbstractOnPolicyStepState(rebuild_state(env, c, s), TabPState(jnp.asarray(h, dtype=int)), cb.step_reset(None, key=root)) for c, s, h in starts]
        stacked = jax.tree.map(lambda *xs: jnp.stack(xs), *sts)
        vout = eqx.filter_jit(lambda ss, ks: eqx.filter_vmap(algo.collect_rollout, in_axes=(None, None, eqx.if_array(0), None, 0))(env, policy, ss, cb, ks))(stacked, keys)
        single = eqx.filter_jit(lambda ss, k: algo.collect_rollout(env, policy, ss, cb, k))
        for i in range(N):
            sout = single(sts[i], keys[i])
            if not tree_equal_bits(jax.tree.map(lambda x: x[i], vout), sout):
                ck.violations.append(Violation("impl-violates-property", "C12/onpolicy/vmapped-vs-single", "environment %d of a vectorised on-policy collection differs from its own single-environment collection" % i,
                                               case={**ck.current_case, "env_index": i}))
                break
        ck.case_seen(("on", idx, N, T)); ck.count("onpolicy_vmapped_vs_singles")
        # off-policy
        C = int(rng.integers(2, 7)); L = int(rng.integers(1, 5))
        dq = DQN(buffer_size=C * N, learning_starts=L, num_envs=N, num_steps=T, batch_size=1)
        ecb = CallbackList(callbacks=[])
        st = eqx.filter_jit(lambda k: dq.reset(env, policy, key=k, callback=ecb))(root)
        vout = eqx.filter_jit(lambda ss, ks: eqx.filter_vmap(dq.collect_rollout, in_axes=(None, None, eqx.if_array(0), None, 0))(env, policy, ss, ecb, ks))(st.step_state, keys)
        single = eqx.filter_jit(lambda ss, k: dq.collect_rollout(env, policy, ss, ecb, k))
        for i in range(N):
            sout = single(jax.tree.map(lambda x: x[i], st.step_state), keys[i])
            if not tree_equal_bits(jax.tree.map(lambda x: x[i], vout), sout):
                ck.violations.append(Violation("impl-violates-property", "C12/offpolicy/vmapped-vs-single", "environment %d of a vectorised off-policy collection differs from its own single-environment collection" % i,
                                               case={**ck.current_case, "env_index": i, "C": C, "L": L}))
                break
        ck.case_seen(("off", idx, N, T)); ck.count("offpolicy_vmapped_vs_singles")
        release_jit(idx, 10)
    ck.current_case = None


def key_independence_probe(ck, quick):
    """No two parallel environments may ever be handed the same key: a probe environment whose observation IS the raw draw of
    the key it receives makes the key streams visible in the collected data.  Independent of how lerax derives the per-environment
    keys: two environments with identical draw sequences over >= 6 steps share a key stream (chance collision < 2^-100)."""
    from typing import ClassVar
    from lerax.env import AbstractEnv, AbstractEnvState
    from lerax.policy import AbstractActorCriticPolicy
    from lerax.space import Discrete
    from harness.stubs import RAW_MAX, raw

    class PState(AbstractEnvState):
        c: jax.Array

    class KeyProbeEnv(AbstractEnv):
        name: ClassVar[str] = "KeyProbe"
        action_space: Discrete
        observation_space: Discrete

        def __init__(self):
            self.action_space = Discrete(2); self.observation_space = Discrete(RAW_MAX)

        def initial(self, *, key): return PState(raw(key) % 7)
        def action_mask(self, state, *, key): return None
        def transition(self, state, action, *, key): return PState((state.c + 1 + raw(key) % 3) % 11)
        def observation(self, state, *, key): return raw(key)
        def reward(self, state, action, next_state, *, key): return (raw(key) % 5).astype(float)
        def terminal(self, state, *, key): return raw(key) % 4 == 0
        def truncate(self, state): return jnp.array(False)
        def state_info(self, state): return {}
        def transition_info(self, s, a, n): return {}
        def default_renderer(self): raise NotImplementedError
        def render(self, state, renderer): raise NotImplementedError

    class ZeroPolicy(AbstractActorCriticPolicy):
        name: ClassVar[str] = "Zero"
        action_space: Discrete
        observation_space: Discrete

        def __init__(self, env): self.action_space = env.action_space; self.observation_space = env.observation_space
        def reset(self, *, key): return None
        def __call__(self, state, observation, *, key=None, action_mask=None): return None, jnp.asarray(0)
        def action_and_value(self, state, observation, *, key, action_mask=None): return None, (raw(key) % 2), jnp.asarray(0.0), jnp.asarray(0.0)
        def value(self, state, observation): return None, jnp.asarray(0.0)
        def evaluate_action(self, state, observation, action, *, action_mask=None): return None, jnp.asarray(0.0), jnp.asarray(0.0), jnp.asarray(0.0)

    env = KeyProbeEnv(); pol = ZeroPolicy(env); cb = CallbackList(callbacks=[])

    def shared(seqs):
        seqs = [tuple(int(x) for x in np.asarray(q).reshape(-1)) for q in seqs]
        return [(i, j) for i in range(len(seqs)) for j in range(i + 1, len(seqs)) if seqs[i] == seqs[j]]

    for rep in range(2 if quick else 8):
        N = 2 + rep % 3; T = 8
        root = jr.key(ck.seed * 100 + rep)
        # on-policy: reset + one iteration's collection (as iteration() does it)
        algo = PPO(num_envs=N, num_steps=T, num_epochs=1, num_batches=1)
        st = algo.reset(env, pol, key=root, callback=cb)
        rk = jr.split(jr.key(rep + 7), 3)[0]
        ss, buf = eqx.filter_jit(lambda s, k: eqx.filter_vmap(algo.collect_rollout, in_axes=(None, None, eqx.if_array(0), None, 0))(env, pol, s, cb, jr.split(k, N)))(st.step_state, rk)
        bad = shared([buf.observations[i] for i in range(N)])
        ck.case_seen(("probe-on", rep, N)); ck.count("key_independence_probes")
        if bad:
            ck.violations.append(Violation("impl-violates-property", "C12/onpolicy/shared-key-stream", f"parallel environments {bad} received identical key streams during on-policy collection",
                                           case={"num_envs": N, "num_steps": T, "seed": ck.seed * 100 + rep, "observations(raw draws)": np.asarray(buf.observations).tolist()}))
        # off-policy: warm-up inside reset(), then one collection
        dq = DQN(buffer_size=64 * N, learning_starts=T, num_envs=N, num_steps=T, batch_size=1)
        st = dq.reset(env, pol, key=root, callback=cb)
        b = st.step_state.buffer
        bad = shared([b.observations[i][:T] for i in range(N)])
        ck.case_seen(("probe-warmup", rep, N)); ck.count("key_independence_probes")
        if bad:
            ck.violations.append(Violation("impl-violates-property", "C12/offpolicy/warmup-shared-key-stream", f"parallel environments {bad} received identical key streams during the learning-starts warm-up",
                                           case={"num_envs": N, "learning_starts": T, "seed": ck.seed * 100 + rep, "observations(raw draws)": np.asarray(b.observations)[:, :T].tolist()}))
        ss = eqx.filter_jit(lambda s, k: eqx.filter_vmap(dq.collect_rollout, in_axes=(None, None, eqx.if_array(0), None, 0))(env, pol, s, cb, jr.split(k, N)))(st.step_state, rk)
        bad = shared([ss.buffer.observations[i][T:2 * T] for i in range(N)])
        ck.case_seen(("probe-off", rep, N)); ck.count("key_independence_probes")
        if bad:
            ck.violations.append(Violation("impl-violates-property", "C12/offpolicy/shared-key-stream", f"parallel environments {bad} received identical key streams during off-policy collection",
                                           case={"num_envs": N, "num_steps": T, "seed": ck.seed * 100 + rep}))


def dict_observation_probe(ck, rng, n):
    """Structured (Dict) observation spaces whose keys are NOT in alphabetical order, flattened by FlattenObservation: the observation must
    be the same eagerly, under jit with the environment passed as an ARGUMENT (it is rebuilt from its pytree leaves there), and vmapped"""
    from collections import OrderedDict
    from lerax.space import Box as _Box, Dict as _Dict
    from lerax.wrapper import FlattenObservation, TransformObservation
    for idx in range(n):
        spec = random_tab(rng, box_obs=True, noise=False, box_action=False)
        spec["osp"][1] = False
        base = TabEnv(spec)
        keys = [["position", "goal"], ["z", "a", "m"], ["b", "a"], ["velocity", "angle", "bias"]][idx % 4]
        sizes = [int(rng.integers(1, 3)) for _ in keys]
        dspace = _Dict(OrderedDict((k, _Box(-jnp.inf, jnp.inf, shape=(sz,))) for k, sz in zip(keys, sizes)))
        offs = [10.0 * (i + 1) for i in range(len(keys))]

        def to_dict(o, keys=keys, sizes=sizes, offs=offs):
            o = jnp.asarray(o, dtype=float).reshape(())
            return OrderedDict((k, o + off + jnp.arange(sz, dtype=float)) for k, sz, off in zip(keys, sizes, offs))
        env = FlattenObservation(TransformObservation(base, to_dict, dspace))
        st = env.initial(key=jr.key(idx))
        ck.current_case = {"what": "FlattenObservation over a Dict observation space", "keys_in_declaration_order": keys, "sizes": sizes}
        eager = np.asarray(env.observation(st, key=jr.key(1)))
        jitted = np.asarray(eqx.filter_jit(lambda e, s, k: e.observation(s, key=k))(env, st, jr.key(1)))
        fjit = np.asarray(eqx.filter_jit(lambda e, s, k: e.observation(s, key=k))(env, st, jr.key(1)))
        vm = np.asarray(jax.vmap(lambda s, k: env.observation(s, key=k))(jax.tree.map(lambda x: jnp.stack([x, x]), st), jr.split(jr.key(1), 2)))[0]
        _, robs, _ = env.reset(key=jr.key(idx))       # the library's own jitted Gym-style API
        eager_reset = np.asarray(env.observation(env.initial(key=jr.split(jr.key(idx), 2)[0]), key=jr.split(jr.key(idx), 2)[1]))
        ck.count("dict_observation_probes"); ck.evaluations += 5
        ck.case_seen(("dict-obs", tuple(keys)) if keys != sorted(keys) else None)
        bad = [nm for nm, v in (("eqx.filter_jit(env as argument)", fjit), ("jax.vmap", vm)) if not np.array_equal(v, eager)]
        if not np.array_equal(np.asarray(robs), eager_reset):
            bad.append("env.reset (jitted by lerax) vs eager initial/observation")
        if bad:
            ck.violations.append(Violation("impl-violates-property", "C12/dict-observation/eager-vs-transformed",
                                           "the flattened observation of a Dict observation space differs between eager evaluation and: " + ", ".join(bad),
                                           case={**ck.current_case, "eager": eager.tolist(), "jit": jitted.tolist(), "filter_jit": fjit.tolist(), "vmap": vm.tolist(),
                                                 "reset_observation": np.asarray(robs).tolist(), "eager_reset_observation": eager_reset.tolist()}))
    ck.current_case = None


SPY: list = []


class SpyPPO(PPO):
    """PPO whose train() records the rollout buffer it is handed (iteration() is run eagerly in the probe below)"""

    def train(self, policy, opt_state, buffer, *, key):
        SPY.append(buffer)
        return super().train(policy, opt_state, buffer, key=key)


def iteration_vs_singles(ck, rng, n):
    """The REAL iteration() of an on-policy learner (its own vmap over environments) vs single-environment collections, on key-free
    MDPs whose table leaves have a leading dimension equal to num_envs (so that slicing an environment leaf across the parallel
    environments instead of broadcasting it would be visible).  Key-free: the comparison does not depend on how keys are derived."""
    from harness.stubs import chain_tab
    for idx in range(n):
        N = 2 + idx % 3
        spec = random_tab(rng, box_obs=False, noise=False, nS=N, trunc_rate=0.0, term_rate=0.2, box_action=bool(idx % 2))
        spec["I"] = spec["I"][:1]; spec["P"] = [[[x[0]] for x in row] for row in spec["P"]]
        # pad the action dimension to N as well: every table then has leading dimension num_envs somewhere
        stack = [["TimeLimit", 3]]
        env = build_stack(TabEnv(spec), stack)
        pspec = random_ptab(rng, spec, spec["asp"], int(spec["osp"][1]), det=True)
        policy = TabPolicy(pspec, env.action_space, env.observation_space)
        T = 5
        algo = SpyPPO(num_envs=N, num_steps=T, gamma=0.5, gae_lambda=0.5, num_epochs=1, num_batches=1)
        cb = CallbackList(callbacks=[])
        ck.current_case = {"spec": spec, "pspec": pspec, "N": N, "T": T, "what": "real PPO.iteration vs single-environment collections (key-free MDP, num_states == num_envs)"}
        st = algo.reset(env, policy, key=jr.key(idx), callback=cb)
        # the parallel environments are put OUT OF PHASE (different TimeLimit counters), so that on most steps one environment is
        # truncated / terminated while its neighbours are not
        st = eqx.tree_at(lambda s: s.step_state.env_state.step_count, st, jnp.arange(N, dtype=st.step_state.env_state.step_count.dtype) % 3)
        SPY.clear()
        st2 = algo.iteration(st, key=jr.key(100 + idx), callback=cb)      # eager: the spying train() sees the concrete rollout buffer
        single = eqx.filter_jit(lambda ss, k: algo.collect_rollout(env, policy, ss, cb, k))
        env_keys = jr.split(jr.split(jr.key(100 + idx), 3)[0], N)
        for i in range(N):
            want, wbuf = single(jax.tree.map(lambda x: x[i], st.step_state), env_keys[i])
            got = jax.tree.map(lambda x: x[i], st2.step_state)
            if not (tree_equal_bits(got.env_state, want.env_state) and tree_equal_bits(got.policy_state, want.policy_state)):
                ck.violations.append(Violation("impl-violates-property", "C12/onpolicy/iteration-vs-single",
                                               "after iteration() environment %d is not in the state its own single-environment collection reaches" % i,
                                               case={**ck.current_case, "env_index": i}))
                break
            if SPY:
                gbuf = jax.tree.map(lambda x: x[i], SPY[0])
                diff = [f for f in ("rewards", "dones", "values", "log_probs", "advantages", "returns")
                        if not np.array_equal(np.asarray(getattr(gbuf, f)), np.asarray(getattr(wbuf, f)))]
                ck.count("iteration_buffer_rows_compared", T)
                if diff:
                    ck.violations.append(Violation(
                        "impl-violates-property", "C12/onpolicy/iteration-buffer-vs-single",
                        "the rollout that iteration() hands to train() for environment %d differs from that environment's own single-environment collection "
                        "from the same key and start state (fields %s): something crossed between parallel environments" % (i, ", ".join(diff)),
                        case={**ck.current_case, "env_index": i, "start_step_counts": [int(x) for x in np.asarray(st.step_state.env_state.step_count)],
                              **{f"iteration[{f}]": np.asarray(getattr(gbuf, f)).tolist() for f in diff},
                              **{f"single[{f}]": np.asarray(getattr(wbuf, f)).tolist() for f in diff}}))
                    break
        if not SPY:
            ck.notes.append("iteration() did not call train() with the rollout buffer: buffer comparison skipped")
        ck.case_seen(("iter", idx, N)); ck.count("iteration_vs_singles")
    ck.current_case = None


QUICK_PROBES = [0, 1, 2, 4, 5, 7, 8, 9, 10, 11]


def _same(a, b, rtol=1e-6, atol=1e-7):
    """nested lists of numbers equal up to float32 rounding (the programs are identical; only their position in the process differs)"""
    if isinstance(a, list) and isinstance(b, list):
        return len(a) == len(b) and all(_same(x, y, rtol, atol) for x, y in zip(a, b))
    if isinstance(a, (int, float)) and isinstance(b, (int, float)):
        if a != a or b != b:
            return (a != a) and (b != b)
        return a == b or abs(a - b) <= atol + rtol * abs(b)
    return a == b


class HistoryProbe:
    """'depends only on its explicit arguments': every probe (a built-in environment / wrapper stack evaluated on fixed keys and
    actions) must give bit-identical results whether it is the only thing its process ever did, or comes after / before all the
    other probes (same-shaped spaces with different bounds, same classes with different options) in one process."""

    def __init__(self, ck, quick):
        import os
        import subprocess
        import sys
        from harness.common import VERIF
        self.ck = ck
        env = dict(os.environ); env.pop("JAX_ENABLE_X64", None)
        n_all = 18
        self.ids = QUICK_PROBES if quick else list(range(n_all))
        run = lambda ids: subprocess.Popen([sys.executable, "-m", "harness.sub_c12_history", "--probes", ",".join(map(str, ids))],  # noqa: E731
                                           cwd=str(VERIF), env=env, stdout=subprocess.PIPE, stderr=subprocess.STDOUT, text=True)
        self.run = run
        self.multi = {"after the others (forward order)": run(self.ids), "before the others (reverse order)": run(self.ids[::-1])}
        self.pending = list(self.ids)
        self.single_procs = {}
        self._fill()

    def _fill(self):
        while self.pending and sum(p.poll() is None for p in self.single_procs.values()) < 5:
            i = self.pending.pop(0)
            self.single_procs[i] = self.run([i])

    @staticmethod
    def _parse(out):
        import json
        import re
        m = re.search(r"^RESULT (.*)$", out or "", re.M)
        return None if not m else {r["probe"]: r for r in json.loads(m.group(1))}

    def collect(self):
        import time
        ck = self.ck
        while self.pending:
            self._fill(); time.sleep(0.5)
        singles = {}
        for i, p in self.single_procs.items():
            out, _ = p.communicate(timeout=900)
            r = self._parse(out)
            if r is None or i not in r:
                ck.violations.append(Violation("correspondence-broken", "C12/history/harness", f"history probe {i} produced no result", extra={"log": (out or "")[-1500:]}))
                continue
            singles[i] = r[i]
        for label, p in self.multi.items():
            out, _ = p.communicate(timeout=1800)
            r = self._parse(out)
            if r is None:
                ck.violations.append(Violation("correspondence-broken", "C12/history/harness", "history probe run produced no result", extra={"log": (out or "")[-1500:]}))
                continue
            for i, one in singles.items():
                ck.count("history_probes")
                ck.case_seen(("history", i, label))
                both = r.get(i)
                if both is None or ("error" in one) != ("error" in both) or not _same(one.get("jit"), both.get("jit")):
                    ck.violations.append(Violation(
                        "impl-violates-property", f"C12/history/{one['name']}",
                        f"{one['name']}: reset/transition/reward/observation/step on fixed keys and actions give different results when evaluated {label} "
                        "in the same process than in a fresh process: the functions depend on process state, not only on their explicit arguments",
                        case={"probe": one["name"], "order": [singles[k]["name"] for k in (self.ids if "forward" in label else self.ids[::-1]) if k in singles],
                              "alone[reset obs; per step: action, reward, observation(next), step obs, step reward, terminal, truncated; space bounds]": one.get("jit", one.get("error")),
                              "in_sequence": None if both is None else both.get("jit", both.get("error"))}))


def body(ck):
    ck.rule = ("(a) finite MDPs x wrapper stacks x tabular policies x N in 2..4 x T in 2..7: vmapped collection vs N single collections (real vs real, bitwise) and vs the Coq model; "
               "(b) built-in environments (classic control x constructor options x wrappers, MuJoCo; G1 in the thorough tier): eager vs jit vs vmap of transition/observation/reward/terminal on states reached by rollouts, rtol 2e-4; "
               "(c) history independence: 10 (quick) / 18 probes, each alone in a fresh process vs after and before all the others in one process, rtol 1e-6")
    ck.assumptions = ["per-environment keys are jr.split(rollout_key, N)[i] (the schedule iteration() uses)"]
    ck.not_proved = ["transparency of jit / vmap (a property of JAX/XLA): observed on the built-in environments with tolerance, not proved",
                     "environment functions depend only on explicit arguments: immutability of equinox modules is assumed; observed by re-evaluation"]
    ck.build_coq(); ck.compile_props()
    ck.kernel_link()   # iteration() for N > 1 environments regenerated from the source: environment i = its own single-environment collection (coq/link/C12_link.v)
    quick = ck.tier == "quick"
    hist = HistoryProbe(ck, quick)          # subprocesses; collected at the end
    real_vs_real(ck, ck.rng, 5 if quick else 60)
    key_independence_probe(ck, quick)
    iteration_vs_singles(ck, ck.rng, 3 if quick else 20)
    dict_observation_probe(ck, ck.rng, 4 if quick else 16)
    cases, cj = [], []
    for i in range(15 if quick else 250):
        lit, j, meta = gen_rollout_case(ck, ck.rng, 700_000 + i, force_vec=True)
        cases.append(lit); cj.append(j)
        release_jit(i, 25)
    ck.current_case = None
    res = ck.run_coq_cases("C04Check", cases, shard=10, preamble=PREAMBLE)
    ck.classify(res, cj, sig_of=lambda i: "C12/onpolicy/model", relation="OnPolicy.collect per environment (C12_onpolicy_no_mixing) vs vmapped collect_rollout",
                what="a vectorised rollout is not the N independent single-environment rollouts")
    hist.collect()
    report(ck, quick, "c12", "a functional component of a built-in environment gives different results eagerly / under jit / under vmap")


if __name__ == "__main__":
    run_main("C12", body)
