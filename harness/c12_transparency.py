"""C12 — JAX transformations are transparent; parallel environments never mix.
Tie: (a) N-environment collections (filter_vmap as in iteration()) vs N independent single-environment
collections of the REAL code from the same per-environment keys and start states (bitwise), and vs the Coq
model; same for off-policy collection; (b) eager vs jit vs vmap of the functional components of the
built-in environments and wrappers (float32, tolerance as the property allows reassociation)."""
from __future__ import annotations

import numpy as np

from harness.common import Violation, run_main, setup_jax

jax = setup_jax(x64=True)
import equinox as eqx  # noqa: E402
import jax.numpy as jnp  # noqa: E402
import jax.random as jr  # noqa: E402

from lerax.algorithm import DQN, PPO  # noqa: E402
from lerax.algorithm.on_policy import AbstractOnPolicyStepState  # noqa: E402
from lerax.callback import CallbackList  # noqa: E402

from harness.builtin_step import report  # noqa: E402
from harness.rollout_cases import PREAMBLE, _ALLOW, RecCallback, gen_rollout_case  # noqa: E402
from harness.stubs import TabEnv, TabPolicy, TabPState, build_stack, random_ptab, random_stack, random_tab, rebuild_state  # noqa: E402


def tree_equal_bits(a, b):
    la, lb = jax.tree.leaves(a), jax.tree.leaves(b)
    return len(la) == len(lb) and all(np.array_equal(np.asarray(x), np.asarray(y), equal_nan=True) for x, y in zip(la, lb))


def real_vs_real(ck, rng, n):
    """vmapped collection vs N scalar collections of the real code (on-policy PPO and off-policy DQN)"""
    for idx in range(n):
        spec = random_tab(rng, box_obs=False, trunc_rate=0.08, term_rate=0.15)
        stack, asp, osp = random_stack(rng, spec, depth=int(rng.integers(0, 3)), allow=_ALLOW)
        pspec = random_ptab(rng, spec, asp, int(spec["osp"][1]))
        env = build_stack(TabEnv(spec), stack)
        policy = TabPolicy(pspec, env.action_space, env.observation_space)
        N = int(rng.integers(2, 5)); T = int(rng.integers(2, 8))
        nlim = sum(1 for d in stack if d[0] == "TimeLimit"); S = len(spec["P"])
        starts = [([int(rng.integers(0, 4)) for _ in range(nlim)], int(rng.integers(0, S)), int(rng.integers(0, pspec["NH"]))) for _ in range(N)]
        root = jr.key(int(rng.integers(0, 2**31))); keys = jr.split(root, N)
        ck.current_case = {"spec": spec, "stack": stack, "pspec": pspec, "N": N, "T": T, "starts": starts}
        # on-policy
        algo = PPO(num_envs=N, num_steps=T, gamma=0.5, gae_lambda=0.5, num_epochs=1, num_batches=1)
        cb = RecCallback(T)
        sts = [AbstractOnPolicyStepState(rebuild_state(env, c, s), TabPState(jnp.asarray(h, dtype=int)), cb.step_reset(None, key=root)) for c, s, h in starts]
        stacked = jax.tree.map(lambda *xs: jnp.stack(xs), *sts)
        vout = eqx.filter_jit(lambda ss, ks: eqx.filter_vmap(algo.collect_rollout, in_axes=(None, None, eqx.if_array(0), None, 0))(env, policy, ss, cb, ks))(stacked, keys)
        single = eqx.filter_jit(lambda ss, k: algo.collect_rollout(env, policy, ss, cb, k))
        for i in range(N):
            sout = single(sts[i], keys[i])
            if not tree_equal_bits(jax.tree.map(lambda x: x[i], vout), sout):
                ck.violations.append(Violation("impl-violates-property", "C12/onpolicy/vmapped-vs-single", "environment %d of a vectorised on-policy collection differs from its own single-environment collection" % i,
                                               case={**ck.current_case, "env_index": i}))
                break
        ck.case_seen(("on", idx, N, T)); ck.count("onpolicy_vmapped_vs_singles")
        # off-policy
        C = int(rng.integers(2, 7)); L = int(rng.integers(1, 5))
        dq = DQN(buffer_size=C * N, learning_starts=L, num_envs=N, num_steps=T, batch_size=1)
        ecb = CallbackList(callbacks=[])
        st = eqx.filter_jit(lambda k: dq.reset(env, policy, key=k, callback=ecb))(root)
        vout = eqx.filter_jit(lambda ss, ks: eqx.filter_vmap(dq.collect_rollout, in_axes=(None, None, eqx.if_array(0), None, 0))(env, policy, ss, ecb, ks))(st.step_state, keys)
        single = eqx.filter_jit(lambda ss, k: dq.collect_rollout(env, policy, ss, ecb, k))
        for i in range(N):
            sout = single(jax.tree.map(lambda x: x[i], st.step_state), keys[i])
            if not tree_equal_bits(jax.tree.map(lambda x: x[i], vout), sout):
                ck.violations.append(Violation("impl-violates-property", "C12/offpolicy/vmapped-vs-single", "environment %d of a vectorised off-policy collection differs from its own single-environment collection" % i,
                                               case={**ck.current_case, "env_index": i, "C": C, "L": L}))
                break
        ck.case_seen(("off", idx, N, T)); ck.count("offpolicy_vmapped_vs_singles")
    ck.current_case = None


def body(ck):
    ck.rule = ("(a) finite MDPs x wrapper stacks x tabular policies x N in 2..4 x T in 2..7: vmapped collection vs N single collections (real vs real, bitwise) and vs the Coq model; "
               "(b) built-in environments (classic control x constructor options x wrappers, MuJoCo; G1 in the thorough tier): eager vs jit vs vmap of transition/observation/reward/terminal on states reached by rollouts, rtol 2e-4")
    ck.assumptions = ["per-environment keys are jr.split(rollout_key, N)[i] (the schedule iteration() uses)"]
    ck.not_proved = ["transparency of jit / vmap (a property of JAX/XLA): observed on the built-in environments with tolerance, not proved",
                     "environment functions depend only on explicit arguments: immutability of equinox modules is assumed; observed by re-evaluation"]
    ck.build_coq(); ck.compile_props()
    quick = ck.tier == "quick"
    real_vs_real(ck, ck.rng, 5 if quick else 60)
    cases, cj = [], []
    for i in range(15 if quick else 250):
        lit, j, meta = gen_rollout_case(ck, ck.rng, 700_000 + i, force_vec=True)
        cases.append(lit); cj.append(j)
    ck.current_case = None
    res = ck.run_coq_cases("C04Check", cases, shard=10, preamble=PREAMBLE)
    ck.classify(res, cj, sig_of=lambda i: "C12/onpolicy/model", relation="OnPolicy.collect per environment (C12_onpolicy_no_mixing) vs vmapped collect_rollout",
                what="a vectorised rollout is not the N independent single-environment rollouts")
    report(ck, quick, "c12", "a functional component of a built-in environment gives different results eagerly / under jit / under vmap")


if __name__ == "__main__":
    run_main("C12", body)
