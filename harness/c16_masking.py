"""C16 — masking and greedy behaviour.  Tie: the real lerax Categorical / Bernoulli /
MultiCategorical `.mask()`, MLPActorCriticPolicy over Discrete / MultiDiscrete / MultiBinary
action spaces and MLPQPolicy (key-less, epsilon = 0, 0 < epsilon < 1, epsilon = 1, with and
without mask) against Lerax.C16Check.  Network outputs are oracle logits read back from the
distribution the policy builds; exp values are mpmath oracles; the noise a key produces
(Gumbel / uniform) is recomputed from the same key and handed to the model."""
from __future__ import annotations

import itertools
import math
from fractions import Fraction
from types import SimpleNamespace

import numpy as np

from harness.common import NonFinite, Violation, bl, listl, natl, ql, run_main, setup_jax, zl

jax = setup_jax(x64=True)
import equinox as eqx  # noqa: E402
import jax.numpy as jnp  # noqa: E402
import jax.random as jr  # noqa: E402
import mpmath  # noqa: E402

from lerax.distribution import Bernoulli, Categorical, MultiCategorical  # noqa: E402
from lerax.policy import MLPActorCriticPolicy, MLPQPolicy  # noqa: E402
from lerax.space import Box, Discrete, MultiBinary, MultiDiscrete  # noqa: E402

mpmath.mp.dps = 40


def exp_oracle(x) -> Fraction:
    v = mpmath.exp(mpmath.mpf(float(x)))
    return Fraction(int(mpmath.floor(v * mpmath.mpf(10) ** 34)), 10 ** 34)


def qo(x) -> str:
    """extended value: -inf -> None"""
    f = float(x)
    if f == float("-inf"):
        return "None"
    return f"(Some {ql(f)})"


def qll(xs) -> str:
    return listl(ql(x) for x in np.asarray(xs).reshape(-1))


def all_masks(n, nonempty=True):
    for bits in itertools.product([False, True], repeat=n):
        if nonempty and not any(bits):
            continue
        yield np.array(bits, dtype=bool)


def multi_masks(dims):
    per = [list(all_masks(d)) for d in dims]
    for combo in itertools.product(*per):
        yield list(combo)


# ----------------------------------------------------------------------------
def lit_cat(ews, mask, pu, ml, pm, greedy, draws):
    dl = listl(f"({qll(g)}, {zl(s)}, {'None' if lp is None else '(Some ' + ql(lp) + ')'})" for g, s, lp in draws)
    return (f"KCat {listl(ql(e) for e in ews)} {listl(bl(b) for b in mask)} {qll(pu)} "
            f"{listl(qo(x) for x in ml)} {qll(pm)} {zl(greedy)} {dl}")


def lit_multi(dims, ews, mask, pu, ml, pm, greedy, draws):
    dl = listl(f"({qll(g)}, {listl(zl(a) for a in s)}, {'None' if lp is None else '(Some ' + ql(lp) + ')'})" for g, s, lp in draws)
    return (f"KMulti {listl(natl(d) for d in dims)} {listl(ql(e) for e in ews)} {listl(bl(b) for b in mask)} {qll(pu)} "
            f"{listl(qo(x) for x in ml)} {qll(pm)} {listl(zl(a) for a in greedy)} {dl}")


def lit_bern(ews, mask, pm, greedy, draws):
    dl = listl(f"({qll(u)}, {listl(bl(b) for b in s)})" for u, s in draws)
    return (f"KBern {listl(ql(e) for e in ews)} {listl(bl(b) for b in mask)} {qll(pm)} "
            f"{listl(bl(b) for b in greedy)} {dl}")


def lit_q(qs, mask, eps, dr, action):
    ml = "None" if mask is None else f"(Some {listl(bl(b) for b in mask)})"
    dl = "None" if dr is None else f"(Some ({ql(dr[0])}, {qll(dr[1])}))"
    return f"KQ {qll(qs)} {ml} {ql(eps)} {dl} {zl(action)}"


# ----------------------------------------------------------------------------
def body(ck):
    quick = ck.tier == "quick"
    ck.rule = ("every non-empty mask for n<=5 actions (thorough: n<=6) x random float64 logits (normal*3, plus near-tie and wide-range vectors) "
               "x several keys, through Categorical/Bernoulli/MultiCategorical.mask(), MLPActorCriticPolicy (Discrete, MultiDiscrete, MultiBinary) "
               "and MLPQPolicy (no key / eps=0 / 0<eps<1 / eps=1, mask or no mask); a case is non-trivial when at least one action is masked "
               "and the unmasked greedy action is masked; distinct by (component, n or dims, mask, logits id)")
    ck.not_proved = [
        "epsilon bound: 'departs from greedy with probability <= epsilon' is proved as 'departs only when u < epsilon'; that jr.uniform is uniform on [0,1) is a PRNG fact (explored: departure frequency over many keys, Hoeffding slack, false-alarm < 1e-9)",
        "that jax.random.categorical is arg-max of logits + Gumbel(key) and jax.random.bernoulli is uniform(key) < p (the harness recomputes the noise from the same key and Coq compares the outcome: tied on every case, not proved)",
        "the neural network itself (its outputs are treated as oracle logits)",
    ]
    ck.assumptions = ["exp values supplied by mpmath (40 digits) as oracle inputs; tolerance 1e-9 in float64 mode",
                      "JAX x64 mode; float arithmetic of softmax/log_softmax within 1e-9 relative of the exact value"]
    ck.build_coq()
    ck.compile_props()
    rng = ck.rng
    nmax = 5 if quick else 6
    nlog = 2 if quick else 4
    nkeys = 4 if quick else 8
    cases, cj = [], []

    def add(lit, j, nontriv):
        cases.append(lit)
        cj.append(j)
        ck.case_seen(nontriv, sample=j)
        ck.count(j["component"])

    def rand_logits(n, kind):
        if kind == 0:
            return rng.normal(size=n) * 3.0
        if kind == 1:
            return rng.normal(size=n) * 0.01 + 1.0      # near ties
        if kind == 2:
            return rng.uniform(-18.0, 18.0, size=n)     # wide range
        return np.round(rng.normal(size=n) * 2.0) / 2.0  # exact ties possible

    # ---------------- direct distributions: Categorical -------------------
    @eqx.filter_jit
    def run_cat(logits, mask, keys):
        d = Categorical(logits=logits)
        dm = d.mask(mask)
        samples = jax.vmap(dm.sample)(keys)
        slp = jax.vmap(dm.sample_and_log_prob)(keys)
        noise = jax.vmap(lambda k: jr.gumbel(k, logits.shape, dm.logits.dtype))(keys)
        return d.probs, dm.logits, dm.probs, dm.mode(), samples, slp, noise

    kid = 0
    for n in range(1, nmax + 1):
        for mask in all_masks(n):
            for li in range(nlog):
                kind = (li + int(mask.sum())) % 4
                if kind == 3:
                    kind = 0  # exact ties make the greedy choice a tie-break; the direct tie cases come below
                logits = rand_logits(n, kind)
                keys = jr.split(jr.key(int(rng.integers(2 ** 31))), nkeys)
                ck.current_case = {"component": "Categorical.mask", "logits": logits.tolist(), "mask": mask.tolist()}
                pu, ml, pm, mode, samples, (s2, lp2), noise = map(np.asarray, run_cat(jnp.asarray(logits), jnp.asarray(mask), keys))
                draws = [(noise[k], int(samples[k]), None) for k in range(nkeys)] + \
                        [(noise[k], int(s2[k]), float(lp2[k])) for k in range(nkeys)]
                ews = [exp_oracle(x) for x in logits]
                j = {"component": "Categorical.mask", "logits": logits.tolist(), "mask": mask.tolist(), "impl_probs_unmasked": pu.tolist(),
                     "impl_masked_logits": ml.tolist(), "impl_masked_probs": pm.tolist(), "impl_mode": int(mode),
                     "impl_samples": samples.tolist(), "impl_sample_and_log_prob": [s2.tolist(), lp2.tolist()]}
                nt = ("cat", n, tuple(mask.tolist()), kid) if (not mask.all() and not mask[int(np.argmax(logits))]) else None
                kid += 1
                add(lit_cat(ews, mask, pu, ml, pm, int(mode), draws), j, nt)
    # extreme logit gaps: a masked action that dominates the allowed ones by far more than the range of exp() must still get
    # probability exactly 0, the allowed ones must be renormalised to a finite law, and mode / samples must be allowed
    # (masking implemented in probability space underflows the allowed mass to 0/0 here)
    for n in range(2, 5):
        for gap in (100.0, 800.0, 5000.0):
            for mask in all_masks(n):
                if mask.all():
                    continue
                logits = rng.normal(size=n)
                logits = np.where(mask, logits, logits + gap)
                keys = jr.split(jr.key(int(rng.integers(2 ** 31))), nkeys)
                jx = {"component": "Categorical.mask/extreme-gap", "logits": logits.tolist(), "mask": mask.tolist(), "gap": gap}
                ck.current_case = jx
                for dtype in (jnp.float64, jnp.float32):
                    pu, ml, pm, mode, samples, (s2, lp2), noise = map(np.asarray, run_cat(jnp.asarray(logits, dtype=dtype), jnp.asarray(mask), keys))
                    ok = (np.all(np.isfinite(pm)) and np.all(pm[~mask] == 0) and abs(float(pm.sum()) - 1.0) < 1e-5 and bool(mask[int(mode)])
                          and bool(mask[samples.astype(int)].all()) and bool(mask[np.asarray(s2).astype(int)].all()) and np.all(np.isfinite(lp2)))
                    ck.count("Categorical.mask/extreme-gap")
                    ck.case_seen(("cat-gap", n, gap, tuple(mask.tolist()), str(dtype)))
                    if not ok:
                        if not any(v.sig == "C16/Categorical/extreme-logit-gap" for v in ck.violations):
                            ck.violations.append(Violation("impl-violates-property", "C16/Categorical/extreme-logit-gap",
                                "with a masked action dominating by a huge logit gap the masked distribution is not a finite law on the allowed actions / a masked action is chosen",
                                case={**jx, "dtype": str(dtype), "impl_masked_probs": pm.tolist(), "impl_mode": int(mode), "impl_samples": samples.tolist()[:8]}))
                        break

    # exact ties among logits: mode must still be allowed and a maximiser (tie-break = first, jnp.argmax)
    for n in range(2, nmax + 1):
        for _ in range(3):
            logits = rand_logits(n, 3)
            mask = rng.random(n) < 0.6
            mask[int(rng.integers(n))] = True
            keys = jr.split(jr.key(int(rng.integers(2 ** 31))), nkeys)
            pu, ml, pm, mode, samples, (s2, lp2), noise = map(np.asarray, run_cat(jnp.asarray(logits), jnp.asarray(mask), keys))
            draws = [(noise[k], int(samples[k]), None) for k in range(nkeys)]
            j = {"component": "Categorical.mask", "logits": logits.tolist(), "mask": mask.tolist(), "impl_masked_probs": pm.tolist(),
                 "impl_mode": int(mode), "impl_samples": samples.tolist(), "ties": True}
            add(lit_cat([exp_oracle(x) for x in logits], mask, pu, ml, pm, int(mode), draws), j, ("cat-tie", n, tuple(mask.tolist()), tuple(logits.tolist())))

    # ---------------- Bernoulli -------------------
    @eqx.filter_jit
    def run_bern(logits, mask, keys):
        dm = Bernoulli(logits=logits).mask(mask)
        samples = jax.vmap(dm.sample)(keys)
        us = jax.vmap(lambda k: jr.uniform(k, logits.shape, dm.probs.dtype))(keys)
        return dm.probs, dm.mode(), samples, us

    for n in range(1, nmax + 1):
        for mask in all_masks(n, nonempty=False):
            logits = rand_logits(n, int(mask.sum()) % 3)
            keys = jr.split(jr.key(int(rng.integers(2 ** 31))), nkeys)
            ck.current_case = {"component": "Bernoulli.mask", "logits": logits.tolist(), "mask": mask.tolist()}
            pm, mode, samples, us = map(np.asarray, run_bern(jnp.asarray(logits), jnp.asarray(mask), keys))
            draws = [(us[k], [bool(b) for b in samples[k]]) for k in range(nkeys)]
            j = {"component": "Bernoulli.mask", "logits": logits.tolist(), "mask": mask.tolist(), "impl_masked_probs": pm.tolist(),
                 "impl_mode": mode.tolist(), "impl_samples": samples.tolist()}
            nt = ("bern", n, tuple(mask.tolist())) if (not mask.all() and np.any((logits > 0) & ~mask)) else None
            add(lit_bern([exp_oracle(x) for x in logits], mask, pm, [bool(b) for b in mode], draws), j, nt)

    # ---------------- MultiCategorical -------------------
    dims_list = [(2, 3), (1, 2), (2, 2, 2), (3, 2)] if quick else [(2, 3), (1, 2), (2, 2, 2), (3, 2), (3, 3), (2, 1, 3), (4, 2)]

    def run_multi_factory(dims):
        # eager: constructing a flat MultiCategorical under jit is probed separately below
        def run(logits, mask, keys):
            d = MultiCategorical(logits=logits, action_dims=dims)
            dm = d.mask(mask)
            idx = np.cumsum(dims)[:-1].tolist()
            dm_seq = d.mask(tuple(jnp.split(mask, idx)))
            d_seq = MultiCategorical(logits=tuple(jnp.split(logits, idx)))
            samples = jax.vmap(dm.sample)(keys)
            slp = jax.vmap(dm.sample_and_log_prob)(keys)

            def noise_of(k):
                ks = jr.split(k, len(dims))
                return jnp.concatenate([jr.gumbel(ks[i], (dims[i],), logits.dtype) for i in range(len(dims))])
            return d.probs, dm.logits, dm.probs, dm.mode(), samples, slp, jax.vmap(noise_of)(keys), dm_seq.logits, d_seq.mask(mask).logits
        return run

    for dims in dims_list:
        run = run_multi_factory(dims)
        tot = sum(dims)
        for mi, mparts in enumerate(multi_masks(dims)):
            mask = np.concatenate(mparts)
            logits = rand_logits(tot, mi % 3)
            keys = jr.split(jr.key(int(rng.integers(2 ** 31))), nkeys)
            ck.current_case = {"component": "MultiCategorical.mask", "dims": dims, "logits": logits.tolist(), "mask": mask.tolist()}
            out = run(jnp.asarray(logits), jnp.asarray(mask), keys)
            pu, ml, pm, mode, samples, (s2, lp2), noise, ml_seq, ml_seq2 = [np.asarray(o) if not isinstance(o, tuple) else tuple(np.asarray(x) for x in o) for o in out]
            j = {"component": "MultiCategorical.mask", "dims": list(dims), "logits": logits.tolist(), "mask": mask.tolist(),
                 "impl_masked_logits": ml.tolist(), "impl_masked_probs": pm.tolist(), "impl_mode": mode.tolist(),
                 "impl_samples": samples.tolist(), "impl_sample_and_log_prob": [s2.tolist(), lp2.tolist()]}
            if not (np.array_equal(ml, ml_seq) and np.array_equal(ml, ml_seq2)):
                ck.violations.append(Violation("impl-violates-property", "C16/MultiCategorical/flat-vs-sequence-mask",
                                               "masking with a flat mask and with a sequence of per-component masks (or flat vs sequence logits) give different laws", case=j))
            draws = [(noise[k], samples[k].tolist(), None) for k in range(nkeys)] + [(noise[k], s2[k].tolist(), float(lp2[k])) for k in range(nkeys)]
            off = np.concatenate([[0], np.cumsum(dims)])
            greedy_masked = any(not mask[off[i] + int(np.argmax(logits[off[i]:off[i + 1]]))] for i in range(len(dims)))
            nt = ("multi", dims, tuple(mask.tolist())) if greedy_masked else None
            add(lit_multi(dims, [exp_oracle(x) for x in logits], mask, pu, ml, pm, mode.tolist(), draws), j, nt)

    ck.log(f"{len(cases)} distribution cases")

    # ---------------- policies -------------------
    obs_space = Box(-jnp.ones(3), jnp.ones(3))

    def mk_env(action_space):
        return SimpleNamespace(action_space=action_space, observation_space=obs_space)

    npol = 2 if quick else 4
    nobs = 1 if quick else 3

    # --- Discrete
    @eqx.filter_jit
    def run_pol_disc(policy, obs, mask, keys):
        feat = policy.encoder(policy.observation_space.flatten_sample(obs))
        du = policy.action_head(feat)
        dm = policy.action_head(feat, action_mask=mask)
        _, a0 = policy(None, obs, key=None, action_mask=mask)
        acts = jax.vmap(lambda k: policy(None, obs, key=k, action_mask=mask)[1])(keys)
        av = jax.vmap(lambda k: policy.action_and_value(None, obs, key=k, action_mask=mask))(keys)
        noise = jax.vmap(lambda k: jr.gumbel(k, du.logits.shape, du.logits.dtype))(keys)
        ev = jax.vmap(lambda a: policy.evaluate_action(None, obs, a, action_mask=mask))(av[1])
        return du.logits, du.probs, dm.logits, dm.probs, a0, acts, av[1], av[3], noise, ev[2]

    for n in range(2, nmax + 1):
        for p in range(npol):
            policy = MLPActorCriticPolicy(env=mk_env(Discrete(n)), key=jr.key(int(rng.integers(2 ** 31))), feature_size=8, feature_width=16, value_width=16, action_width=16)
            # scale the last layer so that the logits are not all nearly equal
            policy = eqx.tree_at(lambda q: q.action_head.action_dist.mapping.weight, policy, policy.action_head.action_dist.mapping.weight * 20.0)
            for oi in range(nobs):
                obs = jnp.asarray(rng.uniform(-1, 1, size=3))
                for mask in all_masks(n):
                    if quick and n == 5 and rng.random() < 0.5 and not (oi == 0 and p == 0):
                        continue
                    keys = jr.split(jr.key(int(rng.integers(2 ** 31))), nkeys)
                    ck.current_case = {"component": "MLPActorCriticPolicy/Discrete", "n": n, "mask": mask.tolist(), "obs": np.asarray(obs).tolist()}
                    lu, pu, ml, pm, a0, acts, a2, lp2, noise, lp3 = map(np.asarray, run_pol_disc(policy, obs, jnp.asarray(mask), keys))
                    draws = [(noise[k], int(acts[k]), None) for k in range(nkeys)] + [(noise[k], int(a2[k]), float(lp2[k])) for k in range(nkeys)] + \
                            [(noise[k], int(a2[k]), float(lp3[k])) for k in range(nkeys)]
                    j = {"component": "MLPActorCriticPolicy/Discrete", "n": n, "mask": mask.tolist(), "obs": np.asarray(obs).tolist(),
                         "oracle_logits": lu.tolist(), "impl_masked_probs": pm.tolist(), "impl_keyless_action": int(a0),
                         "impl_keyed_actions": acts.tolist(), "impl_action_and_value": [a2.tolist(), lp2.tolist()], "impl_evaluate_action_logp": lp3.tolist()}
                    nt = ("pol-disc", n, tuple(mask.tolist()), p, oi) if not mask[int(np.argmax(lu))] else None
                    add(lit_cat([exp_oracle(x) for x in lu], mask, pu, ml, pm, int(a0), draws), j, nt)

    # --- MultiDiscrete
    def run_pol_multi_factory(dims):
        def run(policy, obs, mask, keys):
            feat = policy.encoder(policy.observation_space.flatten_sample(obs))
            du = policy.action_head(feat)
            dm = policy.action_head(feat, action_mask=mask)
            _, a0 = policy(None, obs, key=None, action_mask=mask)
            acts = jax.vmap(lambda k: policy(None, obs, key=k, action_mask=mask)[1])(keys)
            av = jax.vmap(lambda k: policy.action_and_value(None, obs, key=k, action_mask=mask))(keys)

            def noise_of(k):
                ks = jr.split(k, len(dims))
                return jnp.concatenate([jr.gumbel(ks[i], (dims[i],), du.logits.dtype) for i in range(len(dims))])
            return du.logits, du.probs, dm.logits, dm.probs, a0, acts, av[1], av[3], jax.vmap(noise_of)(keys)
        return run

    md_ok = True
    try:
        MLPActorCriticPolicy(env=mk_env(MultiDiscrete((2, 3))), key=jr.key(0), feature_size=8, feature_width=16, value_width=16, action_width=16)
        ck.count("multi-discrete-policy-constructed")
    except Exception as e:  # noqa: BLE001
        md_ok = False
        ck.violations.append(Violation("impl-violates-property", "C16/MLPActorCriticPolicy/MultiDiscrete/construct",
                                       f"MLPActorCriticPolicy cannot be constructed for a MultiDiscrete action space, so masking cannot hold end-to-end for multi-discrete actions: {type(e).__name__}: {str(e)[:160]}",
                                       case={"reproducer": "MLPActorCriticPolicy(env=<env with action_space=MultiDiscrete((2,3))>, key=jr.key(0))",
                                             "cause": "policy/actor.py:103-116 MultiDiscreteAction assigns self.mappings but the abstract field is `mapping`"}))
    for dims in (dims_list if md_ok else []):
        run = run_pol_multi_factory(dims)
        for p in range(npol):
            policy = MLPActorCriticPolicy(env=mk_env(MultiDiscrete(dims)), key=jr.key(int(rng.integers(2 ** 31))), feature_size=8, feature_width=16, value_width=16, action_width=16)
            policy = eqx.tree_at(lambda q: q.action_head.action_dist.mapping.weight, policy, policy.action_head.action_dist.mapping.weight * 20.0)
            obs = jnp.asarray(rng.uniform(-1, 1, size=3))
            for mparts in multi_masks(dims):
                mask = np.concatenate(mparts)
                keys = jr.split(jr.key(int(rng.integers(2 ** 31))), nkeys)
                ck.current_case = {"component": "MLPActorCriticPolicy/MultiDiscrete", "dims": dims, "mask": mask.tolist(), "obs": np.asarray(obs).tolist()}
                lu, pu, ml, pm, a0, acts, a2, lp2, noise = map(np.asarray, run(policy, obs, jnp.asarray(mask), keys))
                draws = [(noise[k], acts[k].tolist(), None) for k in range(nkeys)] + [(noise[k], a2[k].tolist(), float(lp2[k])) for k in range(nkeys)]
                j = {"component": "MLPActorCriticPolicy/MultiDiscrete", "dims": list(dims), "mask": mask.tolist(), "obs": np.asarray(obs).tolist(),
                     "oracle_logits": lu.tolist(), "impl_masked_probs": pm.tolist(), "impl_keyless_action": a0.tolist(),
                     "impl_keyed_actions": acts.tolist(), "impl_action_and_value": [a2.tolist(), lp2.tolist()]}
                off = np.concatenate([[0], np.cumsum(dims)])
                gm = any(not mask[off[i] + int(np.argmax(lu[off[i]:off[i + 1]]))] for i in range(len(dims)))
                add(lit_multi(dims, [exp_oracle(x) for x in lu], mask, pu, ml, pm, a0.tolist(), draws), j, ("pol-multi", dims, tuple(mask.tolist()), p) if gm else None)

    # --- "with a key it samples from the distribution whose log-probability it reports", jointly: a multi-discrete policy with
    # uniform logits must produce every allowed joint action with the frequency exp(reported log-prob) = 1/#allowed joint actions
    # (6-sigma binomial band per cell: a sound statistical criterion, false-alarm probability < 1e-7 per run)
    for dims in ([(3, 3), (2, 3)] if md_ok else []):
        policy = MLPActorCriticPolicy(env=mk_env(MultiDiscrete(dims)), key=jr.key(5), feature_size=8, feature_width=16, value_width=16, action_width=16)
        policy = eqx.tree_at(lambda q: (q.action_head.action_dist.mapping.weight, q.action_head.action_dist.mapping.bias), policy,
                             (policy.action_head.action_dist.mapping.weight * 0.0, policy.action_head.action_dist.mapping.bias * 0.0))
        obs = jnp.asarray(rng.uniform(-1, 1, size=3))
        n = 3600
        for mparts in ([np.ones(d, dtype=bool) for d in dims], [np.array([False] + [True] * (d - 1)) for d in dims]):
            mask = np.concatenate(mparts)
            keys = jr.split(jr.key(int(rng.integers(2 ** 31))), n)
            for api, fn in (("action_and_value", lambda k: (lambda r: (r[1], r[3]))(policy.action_and_value(None, obs, key=k, action_mask=jnp.asarray(mask)))),
                            ("__call__", lambda k: (policy(None, obs, key=k, action_mask=jnp.asarray(mask))[1], jnp.asarray(0.0)))):
                acts, lps = map(np.asarray, eqx.filter_jit(jax.vmap(fn))(keys))
                off = np.concatenate([[0], np.cumsum(dims)])
                allowed = [[c for c in range(dims[i]) if mask[off[i] + c]] for i in range(len(dims))]
                cells = list(itertools.product(*allowed))
                pcell = 1.0 / len(cells)
                band = 6.0 * np.sqrt(pcell * (1 - pcell) / n)
                freq = {c: float(np.mean(np.all(acts == np.asarray(c), axis=1))) for c in cells}
                worst = max(cells, key=lambda c: abs(freq[c] - pcell))
                ck.count("joint-law-probes"); ck.case_seen(("joint-law", dims, api, tuple(mask.tolist())))
                if len(cells) > 1 and abs(freq[worst] - pcell) > band:
                    ck.violations.append(Violation(
                        "impl-violates-property", f"C16/MLPActorCriticPolicy/MultiDiscrete/joint-law/{api}",
                        f"uniform multi-discrete policy: joint action {list(worst)} drawn with frequency {freq[worst]:.4f} over {n} keys, but its (reported) probability is {pcell:.4f} "
                        f"(6-sigma band {band:.4f}): the policy does not sample from the distribution whose log-probability it reports",
                        case={"component": "MLPActorCriticPolicy/MultiDiscrete", "dims": list(dims), "mask": mask.tolist(), "api": api, "n_keys": n,
                              "joint_frequencies": {str(list(c)): freq[c] for c in cells}, "reported_log_prob_first": float(lps[0]), "expected_probability": pcell}))

    # --- MultiBinary
    @eqx.filter_jit
    def run_pol_bin(policy, obs, mask, keys):
        feat = policy.encoder(policy.observation_space.flatten_sample(obs))
        du = policy.action_head(feat)
        dm = policy.action_head(feat, action_mask=mask)
        _, a0 = policy(None, obs, key=None, action_mask=mask)
        acts = jax.vmap(lambda k: policy(None, obs, key=k, action_mask=mask)[1])(keys)
        av = jax.vmap(lambda k: policy.action_and_value(None, obs, key=k, action_mask=mask))(keys)
        us = jax.vmap(lambda k: jr.uniform(k, du.logits.shape, du.probs.dtype))(keys)
        return du.logits, dm.probs, a0, acts, av[1], us

    for n in range(1, nmax + 1):
        for p in range(npol):
            policy = MLPActorCriticPolicy(env=mk_env(MultiBinary(n)), key=jr.key(int(rng.integers(2 ** 31))), feature_size=8, feature_width=16, value_width=16, action_width=16)
            policy = eqx.tree_at(lambda q: q.action_head.action_dist.mapping.weight, policy, policy.action_head.action_dist.mapping.weight * 20.0)
            obs = jnp.asarray(rng.uniform(-1, 1, size=3))
            for mask in all_masks(n, nonempty=False):
                keys = jr.split(jr.key(int(rng.integers(2 ** 31))), nkeys)
                ck.current_case = {"component": "MLPActorCriticPolicy/MultiBinary", "n": n, "mask": mask.tolist(), "obs": np.asarray(obs).tolist()}
                lu, pm, a0, acts, a2, us = map(np.asarray, run_pol_bin(policy, obs, jnp.asarray(mask), keys))
                draws = [(us[k], [bool(b) for b in acts[k]]) for k in range(nkeys)] + [(us[k], [bool(b) for b in a2[k]]) for k in range(nkeys)]
                j = {"component": "MLPActorCriticPolicy/MultiBinary", "n": n, "mask": mask.tolist(), "obs": np.asarray(obs).tolist(),
                     "oracle_logits": lu.tolist(), "impl_masked_probs": pm.tolist(), "impl_keyless_action": a0.tolist(), "impl_keyed_actions": acts.tolist()}
                nt = ("pol-bin", n, tuple(mask.tolist()), p) if np.any((lu > 0) & ~mask) else None
                add(lit_bern([exp_oracle(x) for x in lu], mask, pm, [bool(b) for b in a0], draws), j, nt)

    ck.log(f"{len(cases)} cases after actor-critic policies")

    # every lerax algorithm calls its policy under jit: the multi-discrete policy must be callable there too
    try:
        if not md_ok:
            raise RuntimeError("skip")
        pol = MLPActorCriticPolicy(env=mk_env(MultiDiscrete((2, 3))), key=jr.key(0), feature_size=8, feature_width=16, value_width=16, action_width=16)
        mk = jnp.asarray([True, False, False, True, True])
        a_jit = np.asarray(eqx.filter_jit(lambda p, o, k: p(None, o, key=k, action_mask=mk)[1])(pol, jnp.zeros(3), jr.key(1)))
        a_eager = np.asarray(pol(None, jnp.zeros(3), key=jr.key(1), action_mask=mk)[1])
        ck.count("multi-discrete-policy-under-jit")
        if not np.array_equal(a_jit, a_eager):
            ck.violations.append(Violation("impl-violates-property", "C16/MLPActorCriticPolicy/MultiDiscrete/jit",
                                           "multi-discrete policy gives different actions eagerly and under jit", case={"jit": a_jit.tolist(), "eager": a_eager.tolist()}))
    except RuntimeError as e:
        if str(e) != "skip":
            raise
    except Exception as e:  # noqa: BLE001
        ck.violations.append(Violation("impl-violates-property", "C16/MLPActorCriticPolicy/MultiDiscrete/jit",
                                       f"MLPActorCriticPolicy over a MultiDiscrete action space cannot be called under jax.jit (as every lerax algorithm does): {type(e).__name__}: {str(e)[:160]}",
                                       case={"reproducer": "eqx.filter_jit(lambda p,o,k: p(None,o,key=k))(MLPActorCriticPolicy(env with MultiDiscrete((2,3)) actions), zeros(3), key)",
                                             "cause": "multi_categorical.py:120 split_idx = jnp.cumsum(jnp.asarray(action_dims[:-1])) is a tracer under jit; jnp.split needs static indices"}))

    # --- large discrete action spaces (more than 128 actions: indices beyond the range of a narrow integer type): masks that allow only
    #     high indices, through every sampling entry point of the actor-critic policy and of the Q policy
    for n, allowed in ([(200, [150, 180]), (300, [129, 255, 299])] if quick else [(200, [150, 180]), (300, [129, 255, 299]), (129, [128]), (1000, [500, 999]), (257, [130, 256])]):
        mask = np.zeros(n, dtype=bool); mask[allowed] = True
        policy = MLPActorCriticPolicy(env=mk_env(Discrete(n)), key=jr.key(int(rng.integers(2 ** 31))), feature_size=8, feature_width=16, value_width=16, action_width=16)
        qpol = MLPQPolicy(env=mk_env(Discrete(n)), epsilon=0.5, width_size=16, depth=2, key=jr.key(int(rng.integers(2 ** 31))))
        obs = jnp.asarray(rng.uniform(-1, 1, size=3)); mk = jnp.asarray(mask)
        keys = jr.split(jr.key(int(rng.integers(2 ** 31))), 64)
        ck.current_case = {"component": "large-action-space", "n": n, "allowed": allowed}
        feat = policy.encoder(policy.observation_space.flatten_sample(obs))
        pm = np.asarray(policy.action_head(feat, action_mask=mk).probs, dtype=np.float64)
        outs = {
            "policy.__call__(key)": (np.asarray(jax.vmap(lambda k: policy(None, obs, key=k, action_mask=mk)[1])(keys)), None),
            "policy.__call__(key=None)": (np.asarray(policy(None, obs, key=None, action_mask=mk)[1]).reshape(1), None),
            "policy.action_and_value": (lambda r: (np.asarray(r[1]), np.asarray(r[3])))(jax.vmap(lambda k: policy.action_and_value(None, obs, key=k, action_mask=mk))(keys)),
            "qpolicy.__call__(key)": (np.asarray(jax.vmap(lambda k: qpol(None, obs, key=k, action_mask=mk)[1])(keys)), None),
            "qpolicy.__call__(key=None)": (np.asarray(qpol(None, obs, key=None, action_mask=mk)[1]).reshape(1), None),
        }
        ck.count("large-action-space-probes", len(outs)); ck.evaluations += sum(len(a) for a, _ in outs.values())
        ck.case_seen(("large", n, tuple(allowed)))
        for api, (acts, lps) in outs.items():
            bad = [(i, int(a)) for i, a in enumerate(acts) if int(a) not in allowed]
            what = None
            if bad:
                what = f"{api} returned an action the mask forbids (or not an action at all): {bad[:4]}"
            elif lps is not None:
                worst = max(abs(float(lp) - float(np.log(pm[int(a)]))) for a, lp in zip(acts, lps))
                if not np.isfinite(worst) or worst > 1e-3:
                    what = f"{api} reports a log-probability that is not the masked distribution's log-probability of the returned action (max deviation {worst})"
            if what:
                ck.violations.append(Violation("impl-violates-property", f"C16/large-action-space/{api.split('(')[0]}", what,
                                               case={"n_actions": n, "allowed": allowed, "api": api, "impl_actions": [int(a) for a in acts[:16]],
                                                     "impl_log_probs": None if lps is None else [float(x) for x in lps[:16]],
                                                     "masked_probs_of_allowed": {int(a): float(pm[a]) for a in allowed}}))

    # --- Q policy
    def q_runs(eps, with_mask):
        @eqx.filter_jit
        def run(policy, obs, mask, keys):
            _, q = policy.q_values(None, obs)
            m = mask if with_mask else None
            _, a0 = policy(None, obs, action_mask=m, key=None)
            acts = jax.vmap(lambda k: policy(None, obs, action_mask=m, key=k)[1])(keys)

            def draws(k):
                ek, ak = jr.split(k, 2)
                return jr.uniform(ek, shape=()), jr.gumbel(ak, q.shape, q.dtype)
            u, g = jax.vmap(draws)(keys)
            return q, a0, acts, u, g
        return run

    eps_list = [0.0, 0.25, 1.0] if quick else [0.0, 0.25, 1.0, 0.75]
    runs = {(e, wm): q_runs(e, wm) for e in eps_list for wm in (True, False)}
    depart_stats = {}
    nq_keys = 4 if quick else 10
    for n in range(2, nmax + 1):
        for eps in eps_list:
            policy = MLPQPolicy(env=mk_env(Discrete(n)), epsilon=eps, width_size=16, depth=2, key=jr.key(int(rng.integers(2 ** 31))))
            policy = eqx.tree_at(lambda q: q.q_network.layers[-1].weight, policy, policy.q_network.layers[-1].weight * 10.0)
            obs = jnp.asarray(rng.uniform(-1, 1, size=3))
            masks = [None] + list(all_masks(n))
            for mask in masks:
                if mask is not None and quick and n >= 4 and rng.random() < 0.5:
                    continue
                keys = jr.split(jr.key(int(rng.integers(2 ** 31))), nq_keys)
                mm = jnp.ones(n, dtype=bool) if mask is None else jnp.asarray(mask)
                ck.current_case = {"component": "MLPQPolicy", "n": n, "epsilon": eps, "mask": None if mask is None else mask.tolist()}
                q, a0, acts, u, g = map(np.asarray, runs[(eps, mask is not None)](policy, obs, mm, keys))
                comp = f"MLPQPolicy/{'deterministic' if eps == 0 else 'stochastic' if eps >= 1 else 'epsilon-greedy'}"
                base = {"component": comp, "n": n, "epsilon": eps, "mask": None if mask is None else mask.tolist(),
                        "obs": np.asarray(obs).tolist(), "oracle_q_values": q.tolist()}
                qm = np.where(np.asarray(mm), q, -np.inf)
                nt0 = (comp, n, None if mask is None else tuple(mask.tolist()))
                add(lit_q(q, mask, eps, None, int(a0)), dict(base, key=None, impl_action=int(a0)),
                    nt0 + ("nokey",) if (mask is not None and not mask[int(np.argmax(q))]) else None)
                for k in range(nq_keys):
                    departed = int(acts[k]) != int(np.argmax(qm))
                    add(lit_q(q, mask, eps, (float(u[k]), g[k]), int(acts[k])),
                        dict(base, key=f"key #{k}", u=float(u[k]), gumbel=g[k].tolist(), impl_action=int(acts[k])),
                        nt0 + (k,) if (departed or (mask is not None and not mask[int(np.argmax(q))])) else None)

    # statistical exploration of the epsilon bound: frequency of non-greedy actions <= eps + slack
    N = 2000 if quick else 10000
    slack = math.sqrt(math.log(1e9) / (2 * N))
    for eps in (0.1, 0.3):
        policy = MLPQPolicy(env=mk_env(Discrete(4)), epsilon=eps, width_size=16, depth=2, key=jr.key(int(rng.integers(2 ** 31))))
        obs = jnp.asarray(rng.uniform(-1, 1, size=3))
        mask = jnp.asarray([True, False, True, True])
        acts = np.asarray(eqx.filter_jit(lambda pol, ks: jax.vmap(lambda k: pol(None, obs, action_mask=mask, key=k)[1])(ks))(policy, jr.split(jr.key(int(rng.integers(2 ** 31))), N)))
        _, greedy = policy(None, obs, action_mask=mask, key=None)
        freq = float(np.mean(acts != int(greedy)))
        depart_stats[str(eps)] = {"N": N, "departure_frequency": freq, "bound": eps + slack}
        ck.count("epsilon-frequency-runs")
        if freq > eps + slack or np.any(acts == 1):
            ck.violations.append(Violation("impl-violates-property", "C16/MLPQPolicy/epsilon-frequency",
                                           f"non-greedy frequency {freq:.4f} exceeds epsilon={eps} + {slack:.4f} over {N} keys (or a masked action was chosen)",
                                           case={"epsilon": eps, "N": N, "frequency": freq, "masked_chosen": bool(np.any(acts == 1))}))
    ck.extra_cov["epsilon_departure_statistics"] = depart_stats
    ck.exhaustive = False
    ck.extra_cov["exhaustive_subspace"] = f"every non-empty mask for every action count n <= {nmax} (Categorical, Discrete policy, Q policy [quick: half of the masks for n>=4]); every mask incl. empty for Bernoulli/MultiBinary n <= {nmax}; every product of non-empty component masks for dims in {dims_list}"

    ck.log(f"{len(cases)} cases generated")
    res = ck.run_coq_cases("C16Check", cases, shard=150)
    ck.classify(res, cj, sig_of=lambda i: "C16/" + cj[i]["component"],
                relation="mask_e / mprobs / arg-max / Gumbel-max / Bernoulli threshold / q_act vs lerax distributions and policies",
                what="a masked action received probability or was chosen, probabilities are not renormalised, or a key-less policy is not greedy")


if __name__ == "__main__":
    run_main("C16", body)
