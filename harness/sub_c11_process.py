"""C11: 'repeating training with the same inputs yields bit-identical parameters' across interpreter processes.
Trains one tiny run (--algo PPO|DQN|SAC) and prints RESULT <json> with a sha256 of every parameter leaf of the returned policy.
The caller starts it under different PYTHONHASHSEED values (string-hash randomisation is per process)."""
from __future__ import annotations

import argparse
import hashlib
import json
import os
import sys
import warnings

import numpy as np

warnings.filterwarnings("ignore")
from harness.common import setup_jax

jax = setup_jax(x64=False)
import equinox as eqx  # noqa: E402
import jax.random as jr  # noqa: E402


def main():
    ap = argparse.ArgumentParser()
    ap.add_argument("--algo", required=True)
    ap.add_argument("--seed", type=int, default=0)
    a = ap.parse_args()
    from lerax.algorithm import DQN, PPO, SAC
    from lerax.env.classic_control import CartPole, Pendulum
    from lerax.policy import MLPActorCriticPolicy, MLPQPolicy
    from lerax.policy.sac import MLPSACPolicy
    from lerax.wrapper import TimeLimit
    env, penv = TimeLimit(CartPole(), 10), TimeLimit(Pendulum(), 10)
    k1, k2 = jr.key(a.seed + 1), jr.key(a.seed + 2)
    if a.algo == "PPO":
        algo, e, total = PPO(num_envs=2, num_steps=8, num_epochs=2, num_batches=2), env, 32
        pol = MLPActorCriticPolicy(env=env, key=k1, feature_size=4, feature_width=8, feature_depth=1, value_width=8, value_depth=1, action_width=8, action_depth=1)
    elif a.algo == "DQN":
        algo, e, total = DQN(buffer_size=64, learning_starts=8, num_envs=2, num_steps=2, batch_size=4, target_update_interval=2), env, 16
        pol = MLPQPolicy(env=env, key=k1, width_size=8, depth=1)
    else:
        algo, e, total = SAC(buffer_size=64, learning_starts=8, num_envs=2, num_steps=1, batch_size=4, q_width_size=8, q_depth=1), penv, 8
        pol = MLPSACPolicy(env=penv, key=k1, feature_size=8, width_size=8, depth=1)
    out = sys.stdout
    sys.stdout = sys.stderr = open(os.devnull, "w")
    trained = algo.learn(e, pol, total, key=k2)
    sys.stdout = out
    leaves = [np.asarray(x) for x in jax.tree.leaves(eqx.filter(trained, eqx.is_array))]
    h = hashlib.sha256()
    for x in leaves:
        h.update(str(x.shape).encode()); h.update(x.tobytes())
    before = [np.asarray(x) for x in jax.tree.leaves(eqx.filter(pol, eqx.is_array))]
    changed = any(not np.array_equal(x, y) for x, y in zip(leaves, before))
    print("RESULT " + json.dumps({"algo": a.algo, "digest": h.hexdigest(), "first_leaf": leaves[0].reshape(-1)[:4].tolist(), "trained": bool(changed),
                                  "PYTHONHASHSEED": os.environ.get("PYTHONHASHSEED")}))


if __name__ == "__main__":
    main()
