"""C03 — GAE.  Tie: RolloutBuffer.compute_returns_and_advantages (scalar and
vmapped over parallel environments) and the advantages stored by the real
`collect_rollout`, on exact dyadic float64 data, against Lerax.C03Check."""
from __future__ import annotations

import itertools
from fractions import Fraction

import numpy as np

from harness.common import run_main, bl, listl, ql, setup_jax, to_frac

jax = setup_jax(x64=True)
import equinox as eqx  # noqa: E402
import jax.numpy as jnp  # noqa: E402

from lerax.buffer import RolloutBuffer  # noqa: E402


def f64_exact(fr: Fraction) -> bool:
    try:
        return Fraction(float(fr)) == fr
    except OverflowError:
        return False


def exact_regime(g, l, last, rows) -> bool:
    """Is every intermediate of the float64 computation exact?  (harness filter
    that keeps the comparison in the regime where float64 == rational arithmetic;
    it mirrors the expression tree of rollout.py:63-92 but is never the oracle)"""
    g, l, last = map(Fraction, (g, l, last))
    T = len(rows)
    carry = Fraction(0)
    for t in reversed(range(T)):
        r, v, d = rows[t]
        r, v = Fraction(r), Fraction(v)
        nv = Fraction(rows[t + 1][1]) if t + 1 < T else last
        nt = Fraction(0 if d else 1)
        steps = [g * nv, g * nv * nt, r + g * nv * nt, r + g * nv * nt - v, g * l, g * l * nt, g * l * nt * carry]
        adv = steps[3] + steps[6]
        steps += [adv, adv + v]
        if not all(f64_exact(s) for s in steps):
            return False
        carry = adv
    return True


def case_lit(g, l, last, rows, adv, ret):
    rws = listl(f"Gae.Build_row {ql(r)} {ql(v)} {bl(d)}" for r, v, d in rows)
    return (f"C03Check.Build_case {ql(g)} {ql(l)} {ql(last)} {rws} "
            f"{listl(ql(a) for a in adv)} {listl(ql(a) for a in ret)}")


def body(ck):
    ck.rule = ("random rollouts: T in 1..24 (quick) / 1..40 (thorough), gamma/lambda on the dyadic grid {0,1/4,1/2,3/4,1}, rewards k/4, "
               "values k/2, done rate in {0,.1,.3,.6}; thorough adds all 2^T done patterns for T<=10; "
               "a case is non-trivial when a done lies strictly inside the rollout and a non-zero reward follows it; distinct by (T, done pattern, gamma, lambda)")
    ck.not_proved = []
    ck.assumptions = ["float64 arithmetic is exact on the generated dyadic data (checked per case by an exactness filter; inexact cases are dropped and counted)",
                      "JAX lax.scan(reverse=True) is a right fold (modelled as fold_right)"]
    if not ck.build_coq() or not ck.compile_props():
        # proof broken: still hunt below with the predicate
        pass
    # the Coq definition of compute_returns_and_advantages is REGENERATED from buffer/rollout.py and the link theorems
    # (generated definition = the GAE recursion, for every input) are re-checked
    ck.kernel_link()
    rng = ck.rng
    quick = ck.tier == "quick"
    n_rand = 500 if quick else 2500
    grid = [0.0, 0.25, 0.5, 0.75, 1.0]

    @eqx.filter_jit
    def run1(rew, val, don, last, lam, gam):
        b = RolloutBuffer(observations=rew, actions=rew, rewards=rew, dones=don, log_probs=rew, values=val, states=None)
        b = b.compute_returns_and_advantages(last, lam, gam)
        return b.advantages, b.returns

    @eqx.filter_jit
    def runN(rew, val, don, last, lam, gam):
        b = RolloutBuffer(observations=rew, actions=rew, rewards=rew, dones=don, log_probs=rew, values=val, states=None)
        b = jax.vmap(lambda bb, lv: bb.compute_returns_and_advantages(lv, lam, gam))(b, last)
        return b.advantages, b.returns

    gens = []  # (g,l,last,rows)
    Tmax = 24 if quick else 40
    for _ in range(n_rand):
        T = int(rng.integers(1, Tmax + 1))
        g = float(rng.choice(grid)); l = float(rng.choice(grid))
        if T > 12 and rng.random() < 0.7:
            # keep long rollouts inside 53 bits: gamma*lambda in {0, 1/2, 1}
            g = float(rng.choice([0.5, 1.0])); l = float(rng.choice([0.0, 1.0]))
        rate = float(rng.choice([0.0, 0.1, 0.3, 0.6]))
        rows = [(float(rng.integers(-16, 17)) / 4, float(rng.integers(-16, 17)) / 2, bool(rng.random() < rate)) for _ in range(T)]
        last = float(rng.integers(-16, 17)) / 2
        gens.append((g, l, last, rows))
    if not quick:
        for T in range(1, 11):
            for pat in itertools.product([False, True], repeat=T):
                g = float(rng.choice([0.5, 1.0, 0.75])); l = float(rng.choice([0.5, 1.0, 0.25]))
                rows = [(float(rng.integers(-8, 9)) / 4, float(rng.integers(-8, 9)) / 2, d) for d in pat]
                gens.append((g, l, float(rng.integers(-8, 9)) / 2, rows))
        ck.exhaustive = False
        ck.extra_cov["exhaustive_subspace"] = "all 2^T done patterns for every T <= 10 (values random)"

    cases, cj = [], []
    dropped = 0
    for (g, l, last, rows) in gens:
        if not exact_regime(g, l, last, rows):
            dropped += 1
            continue
        rew = jnp.asarray([r for r, _, _ in rows]); val = jnp.asarray([v for _, v, _ in rows]); don = jnp.asarray([d for _, _, d in rows])
        # the constructor takes array-likes: episode-end flags also arrive as 0/1 integers (rollouts assembled in NumPy / from Gymnasium)
        flag_form = ["bool", "bool", "int32", "numpy-int64", "bool", "uint8"][len(cases) % 6]
        if flag_form == "int32":
            don = don.astype(jnp.int32)
        elif flag_form == "numpy-int64":
            don = np.asarray([int(d) for _, _, d in rows], dtype=np.int64)
        elif flag_form == "uint8":
            don = don.astype(jnp.uint8)
        ck.count("done-flags-as:" + flag_form)
        adv, ret = run1(rew, val, don, jnp.asarray(last), l, g)
        adv = np.asarray(adv); ret = np.asarray(ret)
        if not (np.all(np.isfinite(adv)) and np.all(np.isfinite(ret))):
            adv = np.nan_to_num(adv, nan=12345.0, posinf=12345.0, neginf=12345.0); ret = np.nan_to_num(ret, nan=12345.0, posinf=12345.0, neginf=12345.0)
        cases.append(case_lit(g, l, last, rows, adv, ret))
        j = {"api": "RolloutBuffer.compute_returns_and_advantages", "done_flags_passed_as": flag_form, "gamma": g, "lambda": l, "last_value": last,
             "rows[reward,value,done]": rows, "impl_advantages": adv.tolist(), "impl_returns": ret.tolist()}
        cj.append(j)
        T = len(rows)
        dones = [d for _, _, d in rows]
        nontriv = any(dones[t] and any(rows[u][0] != 0 for u in range(t + 1, T)) for t in range(T - 1))
        ck.case_seen((T, tuple(dones), g, l) if nontriv else None, sample=j)
        ck.count(f"T<={8 * ((T + 7) // 8)}"); ck.count(f"dones={min(sum(dones), 4)}{'+' if sum(dones) > 4 else ''}")
    ck.dist["dropped_inexact"] = dropped

    # vmapped over N parallel environments: each stream on its own
    nvec = 40 if quick else 200
    for _ in range(nvec):
        N = int(rng.integers(2, 5)); T = int(rng.integers(2, 13))
        g = float(rng.choice([0.5, 1.0])); l = float(rng.choice([0.5, 1.0]))
        streams = [[(float(rng.integers(-16, 17)) / 4, float(rng.integers(-16, 17)) / 2, bool(rng.random() < 0.25)) for _ in range(T)] for _ in range(N)]
        lasts = [float(rng.integers(-16, 17)) / 2 for _ in range(N)]
        if not all(exact_regime(g, l, lasts[i], streams[i]) for i in range(N)):
            dropped += 1
            continue
        rew = jnp.asarray([[r for r, _, _ in s] for s in streams]); val = jnp.asarray([[v for _, v, _ in s] for s in streams]); don = jnp.asarray([[d for _, _, d in s] for s in streams])
        adv, ret = runN(rew, val, don, jnp.asarray(lasts), l, g)
        adv = np.asarray(adv); ret = np.asarray(ret)
        for i in range(N):
            cases.append(case_lit(g, l, lasts[i], streams[i], adv[i], ret[i]))
            j = {"api": f"vmap(compute_returns_and_advantages) env {i} of {N}", "gamma": g, "lambda": l, "last_value": lasts[i],
                 "rows[reward,value,done]": streams[i], "impl_advantages": adv[i].tolist(), "impl_returns": ret[i].tolist(),
                 "all_streams": streams, "all_lasts": lasts}
            cj.append(j)
            dones = [d for _, _, d in streams[i]]
            ck.case_seen(("vec", N, i, T, tuple(dones), g, l) if any(dones[:-1]) else None)
            ck.count("vmapped_streams")

    # end-to-end: advantages produced by the real collect_rollout (PPO) on stub MDPs
    try:
        from harness.rollout_cases import collect_gae_cases
        e2e = collect_gae_cases(ck, n=(12 if quick else 60))
        jax.clear_caches()
        for lit_args, j in e2e:
            cases.append(case_lit(*lit_args)); cj.append(j)
    except ImportError:
        ck.notes.append("end-to-end collect_rollout cases not available")

    ck.log(f"{len(cases)} cases generated ({dropped} dropped as inexact)")
    res = ck.run_coq_cases("C03Check", cases)
    ck.classify(res, cj, relation="gaeQ (rollout.py:63-92) vs implementation advantages/returns",
                what="advantages/returns differ from the GAE recursion")


if __name__ == "__main__":
    run_main("C03", body)
