"""C20 — Unitree G1: randomisation within range, coherent gait phase.

Tie (all evaluated by Coq, Lerax.C20Check):
  (a) gait.py
      * the SOURCE TEXT of gait.py executed in exact rational arithmetic (jnp replaced by a
        Fraction shim, pi := a rational half period) == the Coq model, exactly (fail closed);
      * the real jnp functions on phase/frequency/dt grids incl. wrap points, float32 (tol 1e-5)
        and float64 (tol 1e-9), compared on the circle (+pi and -pi are one phase);
      * long histories (10^4 control steps) of advance_gait_phase from initial_gait_phase():
        range / half-a-cycle-apart / advance-by-2*pi*f*dt predicates at every step;
  (b) the three G1 tasks: `initial(key)` for many keys (vmap, one jit per task and configuration):
      randomised model fields vs the nominal model (ranges), EVERY other leaf and all static
      metadata of the mjx model identical to nominal, command / gait frequency ranges, zero
      command for the standing tasks, kinematics of the initial data vs (i) mjx.forward recomputed
      and (ii) C MuJoCo mj_kinematics on the returned qpos; gait phase along real `transition`
      rollouts; randomize_model called directly over many configured ranges / nominal signs.
"""
from __future__ import annotations

import ast
import dataclasses
import math
import os
import time
from fractions import Fraction
from pathlib import Path

import numpy as np

from harness.common import Violation, bl, listl, ql, run_main, setup_jax, zl

jax = setup_jax(x64=False)  # the G1 environments run in float32, as lerax users run them
import equinox as eqx  # noqa: E402
import jax.numpy as jnp  # noqa: E402
import jax.random as jr  # noqa: E402
import mujoco  # noqa: E402
from mujoco import mjx  # noqa: E402

from lerax.env.unitree.g1 import G1Locomotion, G1Standing, G1Standup  # noqa: E402
from lerax.env.unitree.g1 import gait as gait_mod  # noqa: E402
from lerax.env.unitree.g1 import randomize as rand_mod  # noqa: E402

PI64 = Fraction(math.pi)           # oracle value of pi handed to the rational model (float64 runs)
PI32 = Fraction(float(np.float32(np.pi)))   # float32 runs: |PI32 - pi| = 8.7e-8 << tolerance; halves the size of the rationals Coq computes with
TOL32 = Fraction(1, 100000)        # float32 runs
TOL64 = Fraction(1, 10**9)         # float64 runs
PRE = "From Lerax Require Import Gait.\nImport C20Check."
SEG = 2500                         # steps per Coq case of a long history
RANDOMISED = ("pair_friction", "dof_frictionloss", "dof_armature", "body_mass")
KINEMATIC = ("xpos", "xquat", "xmat", "xipos", "ximat", "xanchor", "xaxis", "geom_xpos", "geom_xmat",
             "site_xpos", "site_xmat", "cam_xpos", "cam_xmat", "subtree_com", "cdof", "cinert", "cvel", "cdof_dot")


def pl(a, b):
    return f"({ql(a)}, {ql(b)})"


def drift_tol(tol, n_steps, dtype, prefix=0):
    """tolerance on | |right - left| - pi | after n floating-point steps: the two phases are advanced with
    independent roundings, so their separation performs a rounding random walk (observed: 1e-5 after ~4600
    float32 steps); over the reals it is exactly pi.  Allow 4 ulp(pi) per step on top of the one-step tolerance."""
    per_step = Fraction(1, 10**6) if dtype == np.float32 else Fraction(2, 10**15)
    # a rollout that starts after `prefix` earlier control steps inherits the separation drift of that prefix: observed 2.7e-3 after
    # 500 000 float32 steps (5.4e-9 per step, the roundings at the two feet's wrap points differ systematically); allow 2e-8 per prefix step
    per_prefix = Fraction(2, 10**8) if dtype == np.float32 else Fraction(4, 10**17)
    return tol + n_steps * per_step + prefix * per_prefix


def report(ck, kind, sig, what, case=None):
    """one violation per signature (the first, i.e. smallest-index, failing input is the replay)"""
    if any(v.sig == sig for v in ck.violations):
        return
    ck.violations.append(Violation(kind, sig, what, case=case))


# ----------------------------------------------------------------------------
# (a0) the source of gait.py in exact arithmetic
# ----------------------------------------------------------------------------
class _FracNP:
    """stands in for `jnp` when the source text of gait.py is executed on Fractions"""

    def __init__(self, hp):
        self.pi = hp

    @staticmethod
    def array(x):
        return list(x)

    @staticmethod
    def fmod(x, y):  # C fmod: x - trunc(x/y)*y, exact
        x, y = Fraction(x), Fraction(y)
        q = x / y
        n = math.floor(q) if q >= 0 else -math.floor(-q)
        return x - n * y

    @staticmethod
    def where(c, a, b):
        return a if c else b


def load_gait_source(hp):
    """exec the real gait.py with its imports replaced by the Fraction shim"""
    path = Path(gait_mod.__file__)
    tree = ast.parse(path.read_text())
    body = []
    for node in tree.body:
        if isinstance(node, (ast.Import, ast.ImportFrom)):
            if isinstance(node, ast.ImportFrom) and node.module == "__future__":
                body.append(node)
            continue
        body.append(node)
    tree.body = body
    ns = {"jnp": _FracNP(hp), "__name__": "gait_exact"}
    exec(compile(tree, str(path), "exec"), ns)  # noqa: S102 - the code under test
    return ns


def exact_source_cases(ck, cases, cj, quick):
    rng = ck.rng
    n = 150 if quick else 1500
    for hp in [Fraction(3), Fraction(355, 113), Fraction(22, 7)]:
        ns = load_gait_source(hp)
        init = ns["initial_gait_phase"]()
        if not (len(init) == 2 and Fraction(init[0]) == 0 and Fraction(init[1]) == hp):
            report(ck, "correspondence-broken", "C20/source/initial_gait_phase",
                                           f"initial_gait_phase() is {init!r}, the model starts from [0, pi]")
        for i in range(n):
            kind = i % 4
            ph = hp * Fraction(int(rng.integers(-64, 65)), 64)           # in [-hp, hp], incl. both ends
            if kind == 3:
                ph = hp * Fraction(int(rng.integers(-200, 201)), 64)     # also outside the range
            f = Fraction(int(rng.integers(0, 81)), 16)
            if kind == 2:
                f = Fraction(int(rng.integers(-80, 81)), 16)            # the model is exact for negative f too
            dt = Fraction(int(rng.choice([1, 2, 4, 5, 100])), 100)
            out = ns["advance_gait_phase"](ph, f, dt)
            cases.append(f"ExactAdv {ql(hp)} {ql(ph)} {ql(f)} {ql(dt)} {ql(out)}")
            cj.append({"api": "gait.py source, exact arithmetic: advance_gait_phase", "half_period": str(hp), "phase": str(ph),
                       "frequency": str(f), "dt": str(dt), "out": str(out)})
            wrapped = out != ph + 2 * hp * f * dt
            ck.case_seen(("exact-adv", str(hp), str(ph), str(f), str(dt)) if wrapped else None, sample=cj[-1])
            ck.count("exact-adv")
            h = Fraction(int(rng.integers(0, 33)), 64)
            ph2 = hp * Fraction(int(rng.integers(-64, 65)), 64)
            out = ns["desired_foot_height"](ph2, h)
            cases.append(f"ExactFoot {ql(hp)} {ql(ph2)} {ql(h)} {ql(out)}")
            cj.append({"api": "gait.py source, exact arithmetic: desired_foot_height", "half_period": str(hp), "phase": str(ph2),
                       "swing_height": str(h), "out": str(out)})
            ck.case_seen(("exact-foot", str(hp), str(ph2), str(h)) if h != 0 else None)
            ck.count("exact-foot")
        # default swing height of the signature
        out = ns["desired_foot_height"](Fraction(0))
        cases.append(f"ExactFoot {ql(hp)} {ql(0)} {ql(0.15)} {ql(out)}")
        cj.append({"api": "gait.py source: desired_foot_height default swing_height", "half_period": str(hp), "out": str(out)})
        ck.case_seen(None)


# ----------------------------------------------------------------------------
# (a1) the real jnp functions on grids, (a2) long histories
# ----------------------------------------------------------------------------
def gait_grid_cases(ck, cases, cj, quick, dtype, tol, label):
    pi_t = float(dtype(np.pi))
    PIQ = PI32 if dtype == np.float32 else PI64
    phases = list(np.linspace(-np.pi, np.pi, 17 if quick else 65))
    phases += [0.0, pi_t, -pi_t, pi_t - 1e-3, -pi_t + 1e-3, np.pi / 2, -np.pi / 2, 3.0, -3.0, 1e-6, -1e-6]
    freqs = [0.0, 0.5, 1.25, 1.3, 1.5, 2.0, 5.0, 10.0, 50.0] if quick else [0.0, 0.25, 0.5, 1.0, 1.25, 1.3, 1.37, 1.5, 2.0, 3.0, 5.0, 10.0, 25.0, 50.0, 400.0]
    dts = [0.02, 0.04, 1.0] if quick else [0.02, 0.005, 0.01, 0.04, 0.1, 1.0]
    P, F, D = [], [], []
    for l in phases:
        l = float(dtype(l))
        r = float(dtype(dtype(l) + dtype(np.pi))) if l <= 0 else float(dtype(dtype(l) - dtype(np.pi)))
        for f in freqs:
            for dt in dts:
                P.append([l, r]); F.append(f); D.append(dt)
    adv = jax.jit(jax.vmap(gait_mod.advance_gait_phase))
    out = np.asarray(adv(jnp.asarray(P, dtype=dtype), jnp.asarray(F, dtype=dtype), jnp.asarray(D, dtype=dtype)))
    assert out.dtype == dtype, out.dtype
    Pa, Fa, Da = np.asarray(P, dtype=dtype), np.asarray(F, dtype=dtype), np.asarray(D, dtype=dtype)
    for i in range(len(P)):
        cases.append(f"Traj {ql(PIQ)} {ql(tol)} {ql(tol)} {pl(Pa[i, 0], Pa[i, 1])} [{pl(Fa[i], Da[i])}] [{pl(out[i, 0], out[i, 1])}]")
        cj.append({"api": f"advance_gait_phase ({label})", "phase": Pa[i].tolist(), "frequency": float(Fa[i]), "dt": float(Da[i]),
                   "impl_out": out[i].tolist()})
        unwrapped = float(Pa[i, 0]) + 2 * math.pi * float(Fa[i]) * float(Da[i])
        ck.case_seen((label, "adv", i) if unwrapped >= math.pi or float(Pa[i, 1]) + unwrapped - float(Pa[i, 0]) >= math.pi else None,
                     sample=cj[-1])
        ck.count(f"advance-grid-{label}")
    # foot height
    heights = [0.15, 0.05, 0.3, 0.0, 1.0]
    fp = list(np.linspace(-np.pi, np.pi, 41 if quick else 201)) + [0.0, pi_t, -pi_t, 1e-4, -1e-4]
    PH, H, M = [], [], []
    for p in fp:
        p = float(dtype(p))
        mark = 1 if abs(abs(p) - pi_t) == 0 else (2 if p == 0.0 else 0)
        for h in heights:
            PH.append([p, -p]); H.append(h); M.append(mark)
    foot = jax.jit(jax.vmap(gait_mod.desired_foot_height))
    fo = np.asarray(foot(jnp.asarray(PH, dtype=dtype), jnp.asarray(H, dtype=dtype)))
    PHa, Ha = np.asarray(PH, dtype=dtype), np.asarray(H, dtype=dtype)
    for i in range(len(PH)):
        for side in (0, 1):
            cases.append(f"Foot {ql(PIQ)} {ql(tol)} {ql(PHa[i, side])} {ql(Ha[i])} {ql(fo[i, side])} {zl(M[i])}")
            cj.append({"api": f"desired_foot_height ({label})", "phase": float(PHa[i, side]), "swing_height": float(Ha[i]),
                       "impl_out": float(fo[i, side]), "mark(1=+-pi,2=zero)": M[i]})
            ck.case_seen((label, "foot", i, side) if Ha[i] > 0 else None)
            ck.count(f"foot-grid-{label}")
    # default swing height (0.15) of the signature
    d0 = np.asarray(gait_mod.desired_foot_height(jnp.asarray([0.0, -pi_t], dtype=dtype)))
    cases.append(f"Foot {ql(PIQ)} {ql(tol)} {ql(0.0)} {ql(dtype(0.15))} {ql(d0[0])} 2%Z")
    cj.append({"api": f"desired_foot_height default swing height ({label})", "phase": 0.0, "impl_out": float(d0[0])})
    ck.case_seen(None)
    # initial phase
    ip = np.asarray(gait_mod.initial_gait_phase())
    cases.append(f"Traj {ql(PIQ)} {ql(tol)} {ql(tol)} {pl(ip[0], ip[1])} [] []")
    cj.append({"api": f"initial_gait_phase ({label})", "impl_out": ip.tolist()})
    ck.case_seen(None)


def history_cases(ck, cases, cj, quick, dtype, tol, label):
    rng = ck.rng
    PIQ = PI32 if dtype == np.float32 else PI64
    n = 10000
    freqs = [1.25, 1.37] if quick or dtype == np.float64 else [0.5, 1.25, 1.3, 1.37, 1.4999, 1.5, 2.0, 3.3]

    @jax.jit
    def hist(f, dt):
        def stp(p, _):
            q = gait_mod.advance_gait_phase(p, f, dt)
            return q, q
        p0 = gait_mod.initial_gait_phase().astype(dtype)
        return p0, jax.lax.scan(stp, p0, None, length=n)[1]

    for f in freqs:
        dt = 0.02
        p0, st = hist(jnp.asarray(f, dtype=dtype), jnp.asarray(dt, dtype=dtype))
        p0, st = np.asarray(p0), np.asarray(st)
        assert st.dtype == dtype
        fa, da = dtype(f), dtype(dt)
        # the per-step predicate is local, so the history is handed to Coq in segments (evaluated in parallel);
        # every segment starts from the implementation's own state at that point
        for lo in range(0, n, SEG):
            ps = p0 if lo == 0 else st[lo - 1]
            seg = st[lo:lo + SEG]
            cases.append(f"TrajConst {ql(PIQ)} {ql(tol)} {ql(drift_tol(tol, n, dtype))} {pl(ps[0], ps[1])} {ql(fa)} {ql(da)} {listl(pl(a, b) for a, b in seg)}")
            wraps = int(np.sum(seg[1:, 0] < seg[:-1, 0]))
            cj.append({"api": f"advance_gait_phase history ({label}) from initial_gait_phase()", "frequency": float(fa), "dt": float(da),
                       "history_steps": n, "segment": [lo, lo + len(seg)], "wraps_left": wraps, "segment_start_state": np.asarray(ps).tolist(),
                       "impl_first_states": seg[:4].tolist(), "impl_last_state": seg[-1].tolist()})
            ck.case_seen((label, "hist", f, lo) if wraps > 0 else None, sample=cj[-1])
            ck.count(f"history-{label}-control-steps", len(seg))

    # varying frequency / dt per step
    m = 2000 if quick else 10000

    @jax.jit
    def hist_var(fs, dts):
        def stp(p, x):
            q = gait_mod.advance_gait_phase(p, x[0], x[1])
            return q, q
        p0 = gait_mod.initial_gait_phase().astype(dtype)
        return p0, jax.lax.scan(stp, p0, (fs, dts))[1]

    for rep in range(1 if quick or dtype == np.float64 else 4):
        fs = rng.uniform(0.0, 4.0, size=m).astype(dtype)
        dts = rng.choice([0.005, 0.01, 0.02, 0.04], size=m).astype(dtype)
        p0, st = hist_var(jnp.asarray(fs), jnp.asarray(dts))
        p0, st = np.asarray(p0), np.asarray(st)
        cases.append(f"Traj {ql(PIQ)} {ql(tol)} {ql(drift_tol(tol, m, dtype))} {pl(p0[0], p0[1])} {listl(pl(a, b) for a, b in zip(fs, dts))} {listl(pl(a, b) for a, b in st)}")
        cj.append({"api": f"advance_gait_phase history with per-step frequency/dt ({label})", "steps": m, "rng_rep": rep,
                   "impl_last_state": st[-1].tolist()})
        ck.case_seen((label, "hist-var", rep))
        ck.count(f"history-{label}-varying")


# ----------------------------------------------------------------------------
# (b) environments
# ----------------------------------------------------------------------------
def leaf_names(tree):
    return [jax.tree_util.keystr(p) for p, _ in jax.tree_util.tree_flatten_with_path(tree)[0]]


def same_flags(base, new):
    """per array leaf: bitwise equal to the nominal leaf (NaN == NaN)"""
    la, lb = jax.tree_util.tree_leaves(base), jax.tree_util.tree_leaves(new)
    out = []
    for a, b in zip(la, lb):
        a, b = jnp.asarray(a), jnp.asarray(b)
        if a.shape != b.shape or a.dtype != b.dtype:
            out.append(jnp.asarray(False))
        elif jnp.issubdtype(a.dtype, jnp.floating):
            out.append(jnp.all((a == b) | ((a != a) & (b != b))))
        else:
            out.append(jnp.all(a == b))
    return jnp.stack(out)


def float_leaf_diffs(d1, d2):
    """(names, per-leaf [max |a-b|, max |a|]) over the float array leaves of two mjx.Data"""
    fa = jax.tree_util.tree_flatten_with_path(d1)[0]
    fb = jax.tree_util.tree_leaves(d2)
    names, vals = [], []
    for (p, a), b in zip(fa, fb):
        a, b = jnp.asarray(a), jnp.asarray(b)
        if not jnp.issubdtype(a.dtype, jnp.floating) or a.size == 0 or a.shape != b.shape:
            continue
        diff = jnp.abs(a - b)
        diff = jnp.where((a != a) & (b != b), 0.0, diff)
        diff = jnp.where(diff != diff, jnp.inf, diff)
        names.append(jax.tree_util.keystr(p))
        vals.append(jnp.stack([jnp.max(diff), jnp.max(jnp.where(a == a, jnp.abs(a), 0.0))]))
    return names, jnp.stack(vals)


def field_case(tol, rng_lo_hi, off, skip, torso, nominal, impl):
    lo, hi = rng_lo_hi
    olo, ohi = off
    return (f"Field {ql(tol)} {ql(lo)} {ql(hi)} {ql(olo)} {ql(ohi)} {skip}%nat {zl(torso)} "
            f"{listl(ql(x) for x in nominal)} {listl(ql(x) for x in impl)}")


def pair_case(tol, rng_lo_hi, nominal, impl):
    lo, hi = rng_lo_hi
    return (f"Pair {ql(tol)} {ql(lo)} {ql(hi)} {listl(listl(ql(x) for x in r) for r in nominal)} "
            f"{listl(listl(ql(x) for x in r) for r in impl)}")


def model_cases(ck, cases, cj, sigs, tag, info, base, fields, ranges, torso, nominal_vectors):
    """the four randomised fields of one model next to the nominal ones -> Coq cases"""
    nf, na, nm = nominal_vectors
    base_fl, base_ar = np.asarray(base.dof_frictionloss), np.asarray(base.dof_armature)
    items = [
        ("dof_frictionloss", field_case(TOL32, ranges["friction_loss_scale_range"], (0, 0), 6, -1,
                                        list(base_fl[:6]) + list(nf), fields["dof_frictionloss"])),
        ("dof_armature", field_case(TOL32, ranges["armature_scale_range"], (0, 0), 6, -1,
                                    list(base_ar[:6]) + list(na), fields["dof_armature"])),
        ("body_mass", field_case(TOL32, ranges["mass_scale_range"], ranges["torso_offset_range"], 0, torso,
                                 list(nm), fields["body_mass"])),
        ("pair_friction", pair_case(Fraction(1, 10**6), ranges["friction_range"], np.asarray(base.pair_friction), fields["pair_friction"])),
    ]
    for name, lit in items:
        cases.append(lit)
        j = dict(info)
        j.update({"field": name, "ranges": {k: list(v) for k, v in ranges.items()}, "impl_value": np.asarray(fields[name]).tolist()})
        cj.append(j)
        sigs.append(f"C20/{tag}/model.{name}")
        changed = not np.array_equal(np.asarray(fields[name]), np.asarray(getattr(base, name)))
        ck.case_seen((tag, name, str(info.get("key"))) if changed else None)
        ck.count(f"model-field-{name}")


def check_frame(ck, tag, names, flags, info_of):
    """every leaf other than the four randomised ones must be bitwise the nominal one"""
    flags = np.asarray(flags)
    for li, nm in enumerate(names):
        if nm.split(".")[-1] in RANDOMISED and nm.count(".") == 1:
            continue
        bad = np.where(~flags[:, li])[0]
        if bad.size:
            report(ck, "impl-violates-property", f"C20/{tag}/frame{nm}",
                                           f"model field {nm} of the episode's model differs from the nominal model although randomize.py does not name it",
                                           case=info_of(int(bad[0])))
    ck.count("model-leaves-compared-with-nominal", int(flags.size))


def env_part(ck, cases, cj, sigs, tag, env, n_keys, n_steps, seed, cfg_desc):
    t0 = time.time()
    base = env.base_model
    standing = not isinstance(env, G1Locomotion)
    names = leaf_names(base)
    meta = {}

    from lerax.env.unitree.g1.gait import advance_gait_phase as _adv
    LONG = 500_000     # control steps of an earlier, long part of the episode (bookkeeping only; see below)

    def one(k, idx):
        ik, rk = jr.split(k)
        s = env.initial(key=ik)
        s_init = s
        # "along ANY episode": the recorded rollout of every other key starts from the state a LONG episode prefix leaves behind
        # as far as the gait bookkeeping goes: time and step counter accumulated step by step exactly as transition() does, the
        # phase chained LONG times through the library's own advance_gait_phase.  (The physics part of the state after such a
        # prefix is unknown, but the phase bookkeeping is independent of the physics.)
        def book(_, c):
            t, n, ph = c
            return t + env.dt, n + 1, _adv(ph, s.gait_frequency, env.dt)
        t_l, n_l, ph_l = jax.lax.fori_loop(0, LONG, book, (s.t, s.step_count, s.gait_phase))
        long_start = (idx % 2) == 1
        s = eqx.tree_at(lambda z: (z.t, z.step_count, z.gait_phase), s,
                        (jnp.where(long_start, t_l, s.t), jnp.where(long_start, n_l, s.step_count), jnp.where(long_start, ph_l, s.gait_phase)))
        meta["struct_same"] = jax.tree_util.tree_structure(s.model) == jax.tree_util.tree_structure(base)
        flags = same_flags(base, s.model)
        d2 = mjx.forward(s.model, s.sim_state)
        dn, dv = float_leaf_diffs(s.sim_state, d2)
        meta["data_names"] = dn

        def stp(st, kk):
            ak, tk = jr.split(kk)
            a = jr.uniform(ak, (29,), minval=-1.0, maxval=1.0)
            st2 = env.transition(st, a, key=tk)
            return st2, (st2.gait_phase, st2.gait_frequency)

        _, (phs, frs) = jax.lax.scan(stp, s, jr.split(rk, n_steps))
        d = s.sim_state
        return {"flags": flags, "fwd": dv, "pair_friction": s.model.pair_friction, "dof_frictionloss": s.model.dof_frictionloss,
                "dof_armature": s.model.dof_armature, "body_mass": s.model.body_mass, "qpos": d.qpos, "qvel": d.qvel,
                "xpos": d.xpos, "xquat": d.xquat, "xmat": d.xmat, "site_xpos": d.site_xpos, "site_xmat": d.site_xmat,
                "geom_xpos": d.geom_xpos, "command": s.command, "freq": s.gait_frequency, "phase0": s.gait_phase,
                "t": s_init.t, "step_count": s_init.step_count, "phases": phs, "freqs": frs, "long_start": long_start}

    keys = jr.split(jr.key(seed), n_keys)
    ck.current_case = {"task": tag, "config": cfg_desc, "seed": seed, "n_keys": n_keys}
    out = eqx.filter_jit(jax.vmap(one))(keys, jnp.arange(n_keys))
    out = jax.tree.map(np.asarray, out)
    t_run = time.time() - t0
    ck.log(f"{tag}: initial x{n_keys} + forward + {n_steps}-step rollouts: {t_run:.1f}s (compile included)")
    ck.extra_cov.setdefault("timings_s", {})[tag] = round(t_run, 1)
    kd = np.asarray(jr.key_data(keys)).tolist()
    info_of = lambda i: {"task": tag, "config": cfg_desc, "key": kd[i], "how": f"env.initial(key=jr.split(jr.key({seed}), {n_keys})[{i}])"}

    if not meta["struct_same"]:
        report(ck, "impl-violates-property", f"C20/{tag}/frame/static",
                                       "static (non-array) metadata of the episode's model differs from the nominal model", case=info_of(0))
    check_frame(ck, tag, names, out["flags"], info_of)

    ranges = {k: tuple(getattr(env, k)) for k in ("friction_range", "friction_loss_scale_range", "armature_scale_range",
                                                  "mass_scale_range", "torso_offset_range")}
    nominal_vectors = (np.asarray(base.dof_frictionloss)[6:], np.asarray(base.dof_armature)[6:], np.asarray(base.body_mass))
    mj = env.mujoco_model
    md = mujoco.MjData(mj)
    worst_c = 0.0
    for i in range(n_keys):
        info = info_of(i)
        fields = {k: out[k][i] for k in RANDOMISED}
        model_cases(ck, cases, cj, sigs, tag, info, base, fields, ranges, int(env.torso_body_id), nominal_vectors)
        # command / frequency
        if standing:
            lit = f"Init {ql(Fraction(1, 10**6))} true false [] [] {listl(ql(x) for x in out['command'][i])} {ql(0)} {ql(0)} {ql(out['freq'][i])}"
            box = None
        else:
            clo = [env.lin_vel_x_range[0], env.lin_vel_y_range[0], env.ang_vel_yaw_range[0]]
            chi = [env.lin_vel_x_range[1], env.lin_vel_y_range[1], env.ang_vel_yaw_range[1]]
            zero_ok = float(env.zero_command_probability) > 0
            lit = (f"Init {ql(Fraction(1, 10**6))} false {bl(zero_ok)} {listl(ql(x) for x in clo)} {listl(ql(x) for x in chi)} "
                   f"{listl(ql(x) for x in out['command'][i])} {ql(env.gait_frequency_range[0])} {ql(env.gait_frequency_range[1])} {ql(out['freq'][i])}")
            box = [np.asarray(clo).tolist(), np.asarray(chi).tolist(), np.asarray(env.gait_frequency_range).tolist()]
        cases.append(lit)
        j = dict(info); j.update({"field": "command/gait_frequency", "impl_command": out["command"][i].tolist(),
                                  "impl_gait_frequency": float(out["freq"][i]), "standing_task": standing, "box[lo,hi,freq]": box})
        cj.append(j); sigs.append(f"C20/{tag}/command")
        ck.case_seen((tag, "cmd", i) if np.any(out["command"][i] != 0) or standing else None)
        ck.count("initial-command")
        # gait phase along the real rollout
        fr = out["freqs"][i]
        p0 = out["phase0"][i]
        dt = np.asarray(env.dt)
        if np.all(fr == out["freq"][i]):
            lit = f"TrajConst {ql(PI32)} {ql(TOL32)} {ql(drift_tol(TOL32, n_steps, np.float32, prefix=500_000 if bool(out['long_start'][i]) else 0))} {pl(p0[0], p0[1])} {ql(out['freq'][i])} {ql(dt)} {listl(pl(a, b) for a, b in out['phases'][i])}"
        else:  # the frequency is not supposed to change; the per-step predicate still uses the frequency the step saw
            fprev = np.concatenate([[out["freq"][i]], fr[:-1]])
            lit = (f"Traj {ql(PI32)} {ql(TOL32)} {ql(drift_tol(TOL32, n_steps, np.float32, prefix=500_000 if bool(out['long_start'][i]) else 0))} {pl(p0[0], p0[1])} {listl(pl(f, dt) for f in fprev)} "
                   f"{listl(pl(a, b) for a, b in out['phases'][i])}")
        cases.append(lit)
        ck.count("rollouts-after-a-long-episode-prefix", int(bool(out["long_start"][i])))
        j = dict(info); j.update({"field": "gait_phase along env.transition", "steps": n_steps, "dt": float(dt), "gait_frequency": float(out["freq"][i]),
                                  "control_steps_before_the_recorded_rollout": LONG if bool(out["long_start"][i]) else 0,
                                  "initial_phase": p0.tolist(), "impl_first_phases": out["phases"][i][:4].tolist(),
                                  "impl_last_phase": out["phases"][i][-1].tolist(), "actions": "uniform(-1,1) from the key"})
        cj.append(j); sigs.append(f"C20/{tag}/gait_phase")
        wraps = int(np.sum(out["phases"][i][1:, 0] < out["phases"][i][:-1, 0]))
        ck.case_seen((tag, "rollout", i) if wraps > 0 or standing else None, sample=j)
        ck.count("rollout-control-steps", n_steps)
        # initial bookkeeping that the phase model relies on
        if float(out["t"][i]) != 0.0 or float(out["step_count"][i]) != 0.0:
            report(ck, "impl-violates-property", f"C20/{tag}/initial-time", "episode does not start at t = 0 / step 0", case=info)
        # kinematics (i): mjx.forward recomputed on the returned data
        for li, nm in enumerate(meta["data_names"]):
            short = nm.split(".")[-1]
            dmax, amax = out["fwd"][i][li]
            ck.extra_cov.setdefault("forward_recompute_max_abs_diff", {})
            prev = ck.extra_cov["forward_recompute_max_abs_diff"].get(short, 0.0)
            ck.extra_cov["forward_recompute_max_abs_diff"][short] = max(prev, float(dmax))
            if short in KINEMATIC and not (dmax <= 1e-4 * (1.0 + amax)):
                report(ck, "impl-violates-property", f"C20/{tag}/forward/{short}",
                                               f"data.{short} of the initial state is not what mjx.forward computes from its qpos/qvel (max |diff| {float(dmax):.3g})",
                                               case=info)
        # kinematics (ii): C MuJoCo on the returned joint configuration (positions do not depend on the randomised fields)
        md.qpos[:] = out["qpos"][i]; md.qvel[:] = out["qvel"][i]
        mujoco.mj_kinematics(mj, md)
        for nm, ref in (("xpos", md.xpos), ("xmat", md.xmat.reshape(-1, 3, 3)), ("site_xpos", md.site_xpos),
                        ("site_xmat", md.site_xmat.reshape(-1, 3, 3)), ("geom_xpos", md.geom_xpos)):
            got = out[nm][i].reshape(ref.shape)
            err = float(np.max(np.abs(got - ref))) if np.all(np.isfinite(got)) else float("inf")
            worst_c = max(worst_c, err)
            if not err <= 1e-4:
                report(ck, "impl-violates-property", f"C20/{tag}/kinematics/{nm}",
                                               f"data.{nm} of the initial state differs from MuJoCo's kinematics of its qpos by {err:.3g}", case=info)
        q = out["xquat"][i]
        err = float(np.max(np.minimum(np.abs(q - md.xquat), np.abs(q + md.xquat))))
        worst_c = max(worst_c, err)
        if not err <= 1e-4:
            report(ck, "impl-violates-property", f"C20/{tag}/kinematics/xquat",
                                           f"data.xquat of the initial state differs from MuJoCo's kinematics of its qpos by {err:.3g}", case=info)
        ck.case_seen((tag, "kin", i)); ck.count("initial-kinematics-vs-C-mujoco")
    ck.extra_cov.setdefault("kinematics_vs_C_mujoco_max_abs_err", {})[tag] = worst_c

    # which contact pairs are randomised (NOT constrained by C20: recorded, see final report)
    pn = [mj.pair(i).name for i in range(min(2, mj.npair))]
    if pn != ["left_foot_floor", "right_foot_floor"]:
        msg = (f"observation (outside C20): randomize_friction writes pair_friction[0:2] = pairs {pn}; the compiled model has "
               f"left_foot_floor at {mj.pair('left_foot_floor').id} and right_foot_floor at {mj.pair('right_foot_floor').id}, whose friction stays nominal")
        if msg not in ck.notes:
            ck.notes.append(msg)
            ck.log(msg)
        if os.environ.get("C20_STRICT_FOOT_PAIRS") == "1":
            report(ck, "impl-violates-property", "C20/randomize_friction/foot-pairs", msg, case=info_of(0))


def direct_randomize(ck, cases, cj, sigs, env, quick):
    """randomize_model called directly: ranges are traced, so one jit covers every configured range"""
    base = env.base_model
    names = leaf_names(base)
    torso = int(env.torso_body_id)
    rng = ck.rng

    @jax.jit
    def rm(key, nf, na, nm, r):
        m = rand_mod.randomize_model(base, key=key, nominal_friction_loss=nf, nominal_armature=na, nominal_body_mass=nm,
                                     torso_body_id=torso, friction_range=(r[0], r[1]), friction_loss_scale_range=(r[2], r[3]),
                                     armature_scale_range=(r[4], r[5]), mass_scale_range=(r[6], r[7]), torso_offset_range=(r[8], r[9]))
        return same_flags(base, m), {k: getattr(m, k) for k in RANDOMISED}

    n = 24 if quick else 300
    t0 = time.time()
    for i in range(n):
        if i == 0:
            r = [0.4, 1.0, 0.5, 2.0, 1.0, 1.05, 0.9, 1.1, -1.0, 1.0]
        else:
            a = np.sort(rng.uniform(0.05, 2.0, size=(4, 2)), axis=1)
            o = np.sort(rng.uniform(-3.0, 3.0, size=2))
            r = list(a.reshape(-1)) + list(o)
            if i % 5 == 0:  # degenerate range: lo == hi
                r[3] = r[2]
        r32 = np.asarray(r, dtype=np.float32)
        nf, na, nm = np.asarray(env.nominal_friction_loss), np.asarray(env.nominal_armature), np.asarray(env.nominal_body_mass)
        synthetic = i % 3 == 2
        if synthetic:  # either sign of the nominal values
            nf = rng.uniform(-1.0, 1.0, size=nf.shape).astype(np.float32)
            na = rng.uniform(-0.1, 0.1, size=na.shape).astype(np.float32)
            nm = rng.uniform(-2.0, 5.0, size=nm.shape).astype(np.float32)
        seed = int(rng.integers(0, 2**31 - 1))
        ck.current_case = {"api": "randomize_model", "seed": seed, "ranges": r}
        flags, fields = rm(jr.key(seed), jnp.asarray(nf), jnp.asarray(na), jnp.asarray(nm), jnp.asarray(r32))
        fields = jax.tree.map(np.asarray, fields)
        ranges = {"friction_range": (r32[0], r32[1]), "friction_loss_scale_range": (r32[2], r32[3]), "armature_scale_range": (r32[4], r32[5]),
                  "mass_scale_range": (r32[6], r32[7]), "torso_offset_range": (r32[8], r32[9])}
        ranges = {k: (float(a), float(b)) for k, (a, b) in ranges.items()}
        info = {"api": "randomize.randomize_model(base_model, key=jr.key(seed), ...)", "key": seed, "synthetic_nominal": synthetic,
                "nominal_friction_loss": nf.tolist() if synthetic else "env", "nominal_body_mass": nm.tolist() if synthetic else "env"}
        model_cases(ck, cases, cj, sigs, "randomize_model", info, base, fields, ranges, torso, (nf, na, nm))
        check_frame(ck, "randomize_model", names, np.asarray(flags)[None], lambda _i, info=info, r=r: {**info, "ranges": r})
    ck.extra_cov.setdefault("timings_s", {})["randomize_model_direct"] = round(time.time() - t0, 1)


def wiring_probe(ck):
    """Cheap (no compilation) probe for all three tasks: which configured range does initial() hand to randomize_model under
    which name?  The randomiser is replaced by a recorder that stops initial() right there.  A range passed under another
    parameter's name means episodes are randomised within the WRONG range whenever the two configured ranges differ; the probe
    uses pairwise different ranges and reports the configuration as the failing input.  If the hook points are renamed the probe
    is skipped with a note (the thorough tier checks the same thing behaviourally on compiled initial states)."""
    import inspect
    try:
        from lerax.env.unitree.g1 import randomize as rnd
        orig = rnd.randomize_model
    except Exception as e:  # noqa: BLE001
        ck.notes.append(f"wiring probe skipped: {e}"); return

    class Captured(Exception):
        pass

    def recorder(model, *a, **kw):
        raise Captured(kw)

    ranges = {"friction_range": (0.31, 0.52), "friction_loss_scale_range": (0.81, 0.93), "armature_scale_range": (1.21, 1.42),
              "mass_scale_range": (0.95, 1.04), "torso_offset_range": (-0.55, 0.45)}
    for cls in (G1Locomotion, G1Standing, G1Standup):
        accepted = {k: v for k, v in ranges.items() if k in inspect.signature(cls.__init__).parameters}
        if len(accepted) < 2:
            ck.notes.append(f"wiring probe skipped for {cls.__name__}: constructor parameters renamed"); continue
        env = cls(**accepted)
        rnd.randomize_model = recorder
        try:
            env.initial(key=jr.key(0))
            ck.notes.append(f"wiring probe skipped for {cls.__name__}: initial() does not call randomize.randomize_model"); continue
        except Captured as c:
            kw = c.args[0]
        except Exception as e:  # noqa: BLE001
            ck.notes.append(f"wiring probe skipped for {cls.__name__}: {type(e).__name__}"); continue
        finally:
            rnd.randomize_model = orig
        ck.count("range-wiring-probes")
        ck.case_seen(("wiring", cls.__name__))
        for name, want in accepted.items():
            if name not in kw:
                continue
            got = tuple(float(x) for x in np.asarray(kw[name]).reshape(-1))
            if not np.allclose(got, want, rtol=1e-6):
                other = [n for n, v in accepted.items() if np.allclose(got, v, rtol=1e-6)]
                report(ck, "impl-violates-property", f"C20/initial/range-wiring/{cls.__name__}",
                       f"{cls.__name__}.initial() randomises '{name}' within {got} (the configured {other[0] if other else '?'}) instead of the configured {want}",
                       case={"task": cls.__name__, "constructor_arguments": {k: list(v) for k, v in accepted.items()}, "parameter": name, "range_used": list(got)})


def command_probe(ck):
    """Cheap probe (no physics compilation): G1Locomotion.sample_command with pairwise different, non-nested ranges for the three
    command components; every sampled component must lie in ITS OWN configured range (or the command is the zero command)."""
    import inspect
    if not hasattr(G1Locomotion, "sample_command"):
        ck.notes.append("command probe skipped: G1Locomotion.sample_command not found"); return
    cfg = {"lin_vel_x_range": (0.6, 1.0), "lin_vel_y_range": (-0.3, -0.1), "ang_vel_yaw_range": (0.15, 0.25)}
    params = inspect.signature(G1Locomotion.__init__).parameters
    if not all(k in params for k in cfg):
        ck.notes.append("command probe skipped: constructor parameters renamed"); return
    env = G1Locomotion(**cfg)
    cmds = np.asarray(jax.vmap(lambda k: env.sample_command(key=k))(jr.split(jr.key(ck.seed + 5), 256)))
    ck.count("command-range-probes", 256); ck.case_seen(("command-probe",))
    for i, (name, (lo, hi)) in enumerate(cfg.items()):
        col = cmds[:, i]
        nonzero = ~np.all(cmds == 0.0, axis=1)
        bad = nonzero & ((col < lo - 1e-6) | (col > hi + 1e-6))
        if bad.any():
            j = int(np.argmax(bad))
            report(ck, "impl-violates-property", "C20/command/range",
                   f"G1Locomotion.sample_command: component {i} ({name}) = {col[j]:.4f} outside its configured range {(lo, hi)}",
                   case={"constructor_arguments": {k: list(v) for k, v in cfg.items()}, "key": f"jr.split(jr.key({ck.seed + 5}), 256)[{j}]", "command": cmds[j].tolist()})


def describe(sig):
    last = sig.split("/")[-1]
    if last.startswith("model."):
        return (f"{last[6:]} of the episode's model is outside the configured range around the nominal value, or entries randomize.py "
                "does not name differ from nominal")
    return {
        "command": "initial velocity command / gait frequency outside the configured ranges (or non-zero command in a standing task)",
        "gait_phase": "gait phase along env.transition leaves [-pi, pi], is not half a cycle apart, or does not advance by 2*pi*f*dt per control step",
        "source-exact": "gait.py (source executed in exact arithmetic) disagrees with the model / violates the phase or foot-height predicate",
    }.get(last, "advance_gait_phase / desired_foot_height output violates the phase-range, half-cycle, 2*pi*f*dt-advance or foot-height predicate")


CUSTOM = dict(friction_range=(0.2, 0.5), friction_loss_scale_range=(0.8, 1.2), armature_scale_range=(1.0, 1.5),
              mass_scale_range=(0.7, 1.3), torso_offset_range=(0.0, 2.0))
CUSTOM_LOCO = dict(CUSTOM, lin_vel_x_range=(0.3, 0.8), lin_vel_y_range=(-0.2, -0.1), ang_vel_yaw_range=(0.5, 0.6),
                   gait_frequency_range=(0.5, 3.0), zero_command_probability=0.0, control_frequency_hz=25.0)


def body(ck):
    quick = ck.tier == "quick"
    ck.rule = ("gait: gait.py source executed on exact rationals (3 rational half periods, random dyadic phases in and outside [-hp,hp], "
               "frequencies of both signs) ; jnp functions on phase x frequency x dt grids incl. +-pi, 0 and near-wrap phases in float32 and float64; "
               "10^4-step histories from initial_gait_phase() (constant and per-step varying frequency/dt). "
               "env: jr.split(jr.key(seed), n) keys x tasks (quick: G1Locomotion default config; thorough: the three tasks, default and non-default "
               "ranges incl. 25 Hz control) ; randomize_model directly over random configured ranges, degenerate ranges and mixed-sign nominal vectors. "
               "non-trivial: a wrap occurs / the field differs from nominal / the command is non-zero; distinct by (task, key, field)")
    ck.assumptions = [
        "jnp.fmod is C fmod (x - trunc(x/y)*y, exact); float32/float64 rounding of the remaining operations is below the tolerance "
        "(1e-5 x max(1,|unwrapped phase|) in float32, 1e-9 in float64); phases are compared on the circle",
        "the theorems need 0 <= frequency*dt (C fmod keeps the sign of the dividend: C20_negative_increment_escapes shows the range is left otherwise)",
        "jax.random.uniform draws lie in [minval, maxval] (used, not proved: the draws are inputs of the model)",
        "along long floating-point histories |right - left| - pi drifts by accumulated rounding (about 1e-5 after 5000 float32 steps); "
        "the check allows 1e-6 per step (float32) on the absolute separation while every single step must advance both feet by "
        "2*pi*f*dt within the one-step tolerance",
    ]
    ck.not_proved = [
        "MJX data structures: that state.model differs from the nominal model only in the four named fields, and that the initial data is "
        "mjx.forward-consistent, is observed on every generated key (all array leaves + static metadata), not proved",
        "float fmod rounding at the wrap point (+pi vs -pi) is tolerated, not modelled",
        "PRNG: range membership holds for every draw in range (proved); that jax.random.uniform stays in range is exercised only",
    ]
    ck.build_coq(); ck.compile_props()
    ck.kernel_link()   # gait.py regenerated from the source = Gait.v at half period PI (coq/link/C20_link.v)
    cases, cj, sigs = [], [], []

    def add_sig(n0, sig):
        sigs.extend([sig] * (len(cases) - n0))

    t = time.time()
    n0 = len(cases); exact_source_cases(ck, cases, cj, quick); add_sig(n0, "C20/gait/source-exact")
    n0 = len(cases); gait_grid_cases(ck, cases, cj, quick, np.float32, TOL32, "float32"); add_sig(n0, "C20/gait/grid-float32")
    n0 = len(cases); history_cases(ck, cases, cj, quick, np.float32, TOL32, "float32"); add_sig(n0, "C20/gait/history-float32")
    with jax.enable_x64(True):
        n0 = len(cases); gait_grid_cases(ck, cases, cj, quick, np.float64, TOL64, "float64"); add_sig(n0, "C20/gait/grid-float64")
        if not quick:
            n0 = len(cases); history_cases(ck, cases, cj, quick, np.float64, TOL64, "float64"); add_sig(n0, "C20/gait/history-float64")
    ck.extra_cov.setdefault("timings_s", {})["gait"] = round(time.time() - t, 1)
    ck.log(f"gait cases: {len(cases)} ({time.time() - t:.1f}s)")

    if os.environ.get("C20_ONLY_GAIT") == "1":  # debugging aid (mutation tests of gait.py): skip the environments
        ck.notes.append("C20_ONLY_GAIT=1: environment part skipped")
    elif quick:
        wiring_probe(ck)
        command_probe(ck)
        env = G1Locomotion()
        direct_randomize(ck, cases, cj, sigs, env, quick)
        env_part(ck, cases, cj, sigs, "G1Locomotion", env, n_keys=24, n_steps=150, seed=ck.seed + 20, cfg_desc="default")
    else:
        wiring_probe(ck)
        command_probe(ck)
        env = G1Locomotion()
        direct_randomize(ck, cases, cj, sigs, env, quick)
        env_part(ck, cases, cj, sigs, "G1Locomotion", env, n_keys=64, n_steps=1000, seed=ck.seed + 20, cfg_desc="default")
        env_part(ck, cases, cj, sigs, "G1Standing", G1Standing(), n_keys=64, n_steps=300, seed=ck.seed + 21, cfg_desc="default")
        env_part(ck, cases, cj, sigs, "G1Standup", G1Standup(), n_keys=64, n_steps=300, seed=ck.seed + 22, cfg_desc="default")
        env_part(ck, cases, cj, sigs, "G1Locomotion/custom", G1Locomotion(**CUSTOM_LOCO), n_keys=32, n_steps=400, seed=ck.seed + 23,
                 cfg_desc={k: list(v) if isinstance(v, tuple) else v for k, v in CUSTOM_LOCO.items()})
        env_part(ck, cases, cj, sigs, "G1Standup/custom", G1Standup(**CUSTOM), n_keys=16, n_steps=50, seed=ck.seed + 24,
                 cfg_desc={k: list(v) for k, v in CUSTOM.items()})
    assert len(sigs) == len(cases) == len(cj), (len(sigs), len(cases), len(cj))
    # long trajectories cost Coq tens of seconds each: give every one its own shard so they are evaluated in parallel
    heavy = [i for i, c in enumerate(cases) if len(c) > 10000]
    light = [i for i, c in enumerate(cases) if len(c) <= 10000]
    SHARD = min(120, max(10, len(light) // max(len(heavy), 1) + 1))
    order, h = [], 0
    for lo in range(0, max(len(light), 1), SHARD - 1):
        if h < len(heavy):
            order.append(heavy[h]); h += 1
            order.extend(light[lo:lo + SHARD - 1])
        else:
            order.extend(light[lo:])
            break
    while h < len(heavy):  # more heavy cases than light chunks: pad shards with nothing else
        pad = (-len(order)) % SHARD
        order.extend([light[0]] * pad if light else [])
        order.append(heavy[h]); h += 1
    cases = [cases[i] for i in order]; cj = [cj[i] for i in order]; sigs = [sigs[i] for i in order]
    ck.log(f"{len(cases)} cases -> Coq ({len(heavy)} long trajectories, one per shard)")
    t = time.time()
    res = ck.run_coq_cases("C20Check", cases, shard=SHARD, preamble=PRE)
    ck.extra_cov["timings_s"]["coq_cases"] = round(time.time() - t, 1)
    # classify per component, so that a pure model/implementation disagreement in one component is not
    # masked by a property violation in another
    if res is not None:
        for g in sorted(set(sigs)):
            idx = [i for i, x in enumerate(sigs) if x == g]
            loc = {gi: li for li, gi in enumerate(idx)}
            sub = {fn: [loc[i] for i in res.get(fn, []) if i in loc] for fn in ("agree", "holds")}
            ck.classify(sub, [cj[i] for i in idx], sig_of=lambda _i, g=g: g, relation="Gait.v model (gait.py / randomize.py) vs lerax",
                        what=describe(g))


if __name__ == "__main__":
    run_main("C20", body)
