"""C19 — reported performance numbers are faithful to what happened.
Tie: LoggingCallbackStepState.next along random histories; the reward/done handed to step
callbacks by the real collect_rollout; scalars received by a recording backend from real
PPO.learn runs on finite MDPs; rollout_scan / rollout_while / average_reward on finite
MDPs; all vs Lerax.Logging, compared in Coq."""
from __future__ import annotations

import numpy as np

from harness.common import Violation, bl, listl, ql, release_jit, run_main, setup_jax, zl

jax = setup_jax(x64=True)
import equinox as eqx  # noqa: E402
import jax.numpy as jnp  # noqa: E402
import jax.random as jr  # noqa: E402

from lerax.algorithm import PPO  # noqa: E402
from lerax.benchmark import average_reward, rollout_scan, rollout_while  # noqa: E402
from lerax.callback import AbstractCallbackStepState, AbstractStepCallback, LoggingCallback  # noqa: E402
from lerax.callback.logging import AbstractLoggingBackend  # noqa: E402
from lerax.callback.logging.callback import LoggingCallbackStepState  # noqa: E402

from harness.rollout_cases import PREAMBLE, _ALLOW, gen_rollout_case  # noqa: E402
from harness.stubs import (KeyTree, TabEnv, TabPolicy, build_stack, path_lit, ptab_lit, random_ptab, random_stack, random_tab,  # noqa: E402
                           rawtbl_lit, subtree, tab_lit, wd_lit)


class Rec(AbstractLoggingBackend):
    rows: list = eqx.field(static=True)

    def __init__(self):
        self.rows = []

    def open(self, name):
        pass

    def log_scalars(self, scalars, step):
        self.rows.append((int(step), {k: float(v) for k, v in scalars.items()}))

    def log_hparams(self, h):
        pass

    def log_video(self, *a, **k):
        pass

    def close(self):
        pass


def next_cases(ck, rng, n):
    cases, cj = [], []
    nxt = eqx.filter_jit(lambda s, r, d, a: s.next(r, d, a))
    for i in range(n):
        alpha = float(rng.choice([0.5, 0.25, 0.75, 1.0, 0.0, 0.125]))
        T = int(rng.integers(1, 30))
        rate = float(rng.choice([0.1, 0.3, 0.6]))
        h = [(float(rng.integers(-8, 9)) / 4, bool(rng.random() < rate)) for _ in range(T)]
        # exactness budget: alpha^k*... with k = number of dones; keep k small for tiny alpha
        if sum(d for _, d in h) > 10:
            h = [(r, d and j % 3 == 0) for j, (r, d) in enumerate(h)]
        s = LoggingCallbackStepState.initial()
        sts = []
        for r, d in h:
            s = nxt(s, jnp.asarray(r), jnp.asarray(d), alpha)
            sts.append((int(s.step), float(s.episode_return), int(s.episode_length), bool(s.episode_done), float(s.average_return), float(s.average_length)))
        lit = (f"CNext {ql(alpha)} {listl('(' + ql(r) + ', ' + bl(d) + ')' for r, d in h)} "
               f"{listl('(' + ', '.join([zl(a), ql(b), zl(c), bl(d), ql(e), ql(f)]) + ')' for a, b, c, d, e, f in sts)}")
        j = {"api": "LoggingCallbackStepState.next", "alpha": alpha, "history[reward,done]": h, "impl_states[step,ep_ret,ep_len,ep_done,avg_ret,avg_len]": sts}
        cases.append(lit); cj.append(j)
        nd = sum(d for _, d in h)
        ck.case_seen(("next", i, nd) if nd >= 2 else None, sample=j); ck.count("next_histories")
    return cases, cj


def eval_cases(ck, rng, n):
    cases, cj = [], []
    for i in range(n):
        kf = bool(rng.random() < 0.4)
        spec = random_tab(rng, box_obs=False, noise=not kf, trunc_rate=0.05, term_rate=0.25)
        if kf:
            spec["I"] = spec["I"][:1]; spec["P"] = [[[x[0]] for x in row] for row in spec["P"]]
        # initial states are neither terminal nor truncated (a reset never returns a finished episode)
        for s0 in spec["I"]:
            spec["T"][s0] = [False] * len(spec["T"][s0]); spec["TR"][s0] = False
        stack, asp, osp = random_stack(rng, spec, depth=int(rng.integers(1, 3)), allow=["TimeLimit", "ClipReward", "TransformReward", "Identity"])
        if not any(d[0] == "TimeLimit" for d in stack):
            stack = [["TimeLimit", int(rng.integers(2, 8))]] + stack
        pspec = random_ptab(rng, spec, asp, int(spec["osp"][1]), det=kf)
        if asp[0] == "box":
            # the helpers do not clip: keep proposals inside the bounds
            lo = asp[2] if asp[2] is not None else float("-inf")      # None = unbounded on that side
            hi = asp[3] if asp[3] is not None else float("inf")
            pspec["ACT"] = [[[min(max(a, lo), hi) for a in r] for r in m] for m in pspec["ACT"]]
        env = build_stack(TabEnv(spec), stack)
        policy = TabPolicy(pspec, env.action_space, env.observation_space)
        det = bool(rng.random() < 0.3)
        mode = int(rng.integers(0, 3))
        max_steps = int(rng.integers(1, 14)); nep = int(rng.choice([1, 2, 4]))  # power of two: the mean over episodes is exact
        seed = int(90_000 * (ck.seed + 1) + i)
        root = jr.key(seed); tree = KeyTree([root]); rp = ((0, 0),)
        ck.current_case = {"spec": spec, "stack": stack, "pspec": pspec, "mode": mode, "seed": seed}
        paths = []
        if mode == 0:
            v = rollout_scan(env, policy, key=root, deterministic=det, max_steps=max_steps)
            paths += [rp] + [p for t in range(max_steps) for p in subtree(rp + ((max_steps, t),), [5])]
        elif mode == 1:
            v = rollout_while(env, policy, key=root, deterministic=det)
            cur = rp
            for _ in range(40):
                paths += subtree(cur, [4]); cur = cur + ((4, 0),)
        else:
            v = average_reward(env, policy, num_episodes=nep, max_steps=max_steps, deterministic=det, key=root)
            for e in range(nep):
                ep = rp + ((nep, e),)
                paths += [ep] + [p for t in range(max_steps) for p in subtree(ep + ((max_steps, t),), [5])]
        raw_lit, raw_json = rawtbl_lit(tree, paths)
        raw_lit = "(([], 0%Z) :: " + raw_lit + ")"
        lit = (f"CEval {bl(kf)} {tab_lit(spec)} {raw_lit} {listl(wd_lit(d) for d in stack)} {ptab_lit(pspec)} {bl(det)} {path_lit(rp)} "
               f"{max_steps}%nat {nep}%nat {mode}%nat {ql(float(v))}")
        j = {"api": ["rollout_scan", "rollout_while", "average_reward"][mode], "spec": spec, "stack": stack, "policy": pspec, "deterministic": det,
             "max_steps": max_steps, "num_episodes": nep, "seed": seed, "key_free": kf, "impl_value": float(v)}
        cases.append(lit); cj.append(j)
        ck.case_seen(("eval", i, mode), sample=None); ck.count("eval:" + j["api"])
        release_jit(i, 25)
    ck.current_case = None
    return cases, cj


def learn_cases(ck, rng, n):
    cases, cj = [], []
    for i in range(n):
        spec = random_tab(rng, box_obs=False, box_action=False, trunc_rate=0.05, term_rate=0.2)
        stack, asp, osp = random_stack(rng, spec, depth=int(rng.integers(0, 3)), allow=["TimeLimit", "ClipReward", "TransformReward", "Identity"])
        pspec = random_ptab(rng, spec, asp, int(spec["osp"][1]))
        env = build_stack(TabEnv(spec), stack)
        policy = TabPolicy(pspec, env.action_space, env.observation_space)
        N = int(rng.choice([1, 2, 4])); T = int(rng.integers(2, 6)); iters = int(rng.integers(1, 4))  # power of two: the mean over envs is exact
        alpha = float(rng.choice([0.5, 0.25, 1.0])); gamma = 0.5
        total = iters * N * T + int(rng.integers(0, N * T))
        seed = int(110_000 * (ck.seed + 1) + i)
        root = jr.key(seed); tree = KeyTree([root]); rp = ((0, 0),)
        rec = Rec()
        cb = LoggingCallback(rec, name="verif", alpha=alpha)
        algo = PPO(num_envs=N, num_steps=T, num_epochs=1, num_batches=1, gamma=gamma, gae_lambda=0.5)
        ck.current_case = {"spec": spec, "stack": stack, "pspec": pspec, "N": N, "T": T, "total_timesteps": total, "seed": seed}
        algo.learn(env, policy, total, key=root, callback=cb)
        jax.effects_barrier()
        recs = [(st, sc["episode/return"], sc["episode/length"]) for st, sc in rec.rows]
        paths = []
        sk = rp + ((4, 1), (2, 0))
        for e in range(N):
            paths += subtree(sk + (((N, e),) if N > 1 else ()), [2])
        for jn in range(iters):
            rk = rp + ((4, 2), (iters, jn), (3, 0))
            for e in range(N):
                ek = rk + (((N, e),) if N > 1 else ())
                paths += [ek + ((2, 1),)]
                for t in range(T):
                    paths += subtree(ek + ((2, 0), (T, t)), [9])
        raw_lit, raw_json = rawtbl_lit(tree, paths)
        lit = (f"CLearn {tab_lit(spec)} {raw_lit} {listl(wd_lit(d) for d in stack)} {ptab_lit(pspec)} {ql(gamma)} {ql(alpha)} {N}%nat {T}%nat {iters}%nat "
               f"{path_lit(rp)} {listl('(' + zl(a) + ', ' + ql(b) + ', ' + ql(c) + ')' for a, b, c in recs)}")
        j = {"api": "PPO.learn + LoggingCallback(recording backend)", "spec": spec, "stack": stack, "policy": pspec, "num_envs": N, "num_steps": T,
             "total_timesteps": total, "expected_iterations": iters, "alpha": alpha, "seed": seed, "impl_records[step,episode/return,episode/length]": recs}
        cases.append(lit); cj.append(j)
        ck.case_seen(("learn", i, N, T, iters) if iters >= 2 else None, sample=None); ck.count("learn_runs"); ck.count("log_records", len(recs))
        release_jit(i, 10)
        if len(recs) != iters:
            ck.violations.append(Violation("impl-violates-property", "C19/learn/record-count", f"{len(recs)} log records for {iters} iterations", case=j))
    ck.current_case = None
    return cases, cj


class HistState(AbstractCallbackStepState):
    rew: jax.Array
    done: jax.Array
    ptr: jax.Array


class HistObserver(AbstractStepCallback):
    """an independent user observer: records per environment the (reward, done) pair of every step it is told about
    (warm-up included) and hands the history to the host at every iteration"""
    cap: int = eqx.field(static=True)
    sink: list = eqx.field(static=True)

    def step_reset(self, ctx, *, key):
        return HistState(jnp.zeros((self.cap,)), jnp.zeros((self.cap,), dtype=bool), jnp.array(0))

    def on_step(self, ctx, *, key):
        s = ctx.state
        i = jnp.minimum(s.ptr, self.cap - 1)
        return HistState(s.rew.at[i].set(ctx.reward), s.done.at[i].set(ctx.done), s.ptr + 1)

    def on_iteration(self, ctx, *, key):
        ss = ctx.step_state
        jax.debug.callback(lambda r, d, p: self.sink.append((np.array(r), np.array(d), np.array(p))), ss.rew, ss.done, ss.ptr, ordered=True)
        return ctx.state


def learn_hist_cases(ck, rng, n):
    """learn() of DQN / SAC (warm-up steps before the first iteration) and PPO / A2C with the STOCK networks on finite MDPs:
    the records the backend receives vs the history an independent user step observer saw"""
    import os
    import sys
    from lerax.algorithm import A2C, DQN, SAC
    from lerax.policy import MLPActorCriticPolicy, MLPQPolicy, MLPSACPolicy
    cases, cj = [], []
    for i in range(n):
        kind = ["DQN", "SAC", "DQN", "PPO", "A2C"][i % 5]
        # the stock SAC policy squashes into the action box and (rightly, loudly) refuses boxes that are not bounded on both sides
        spec = random_tab(rng, box_obs=False, box_action=(kind == "SAC"), trunc_rate=0.05, term_rate=0.25, half_bounded=False)
        stack, asp, osp = random_stack(rng, spec, depth=int(rng.integers(1, 3)), allow=["TimeLimit", "ClipReward", "TransformReward", "TimeLimit"])
        env = build_stack(TabEnv(spec), stack)
        N = int(rng.choice([1, 2, 4])); T = int(rng.integers(1, 5)); iters = int(rng.integers(2, 5))
        L = int(rng.integers(0, 9)) if kind in ("DQN", "SAC") else 0
        alpha = float(rng.choice([0.5, 0.25, 1.0]))
        total = iters * N * T + int(rng.integers(0, N * T))
        seed = int(115_000 * (ck.seed + 1) + i)
        k1, k2 = jr.split(jr.key(seed))
        if kind == "DQN":
            algo = DQN(buffer_size=64 * N, learning_starts=L, num_envs=N, num_steps=T, batch_size=2)
            pol = MLPQPolicy(env=env, key=k1, width_size=4, depth=1)
        elif kind == "SAC":
            algo = SAC(buffer_size=64 * N, learning_starts=L, num_envs=N, num_steps=T, batch_size=2, q_width_size=4, q_depth=1)
            pol = MLPSACPolicy(env=env, key=k1, feature_size=4, width_size=4, depth=1)
        else:
            algo = (PPO(num_envs=N, num_steps=T, num_epochs=1, num_batches=1) if kind == "PPO" else A2C(num_envs=N, num_steps=T))
            pol = MLPActorCriticPolicy(env=env, key=k1, feature_size=4, feature_width=4, feature_depth=1, value_width=4, value_depth=1,
                                       action_width=4, action_depth=1)
        rec, sink = Rec(), []
        cap = L + iters * T + 2
        ck.current_case = {"algo": kind, "spec": spec, "stack": stack, "N": N, "T": T, "L": L, "total_timesteps": total, "seed": seed}
        out, err = sys.stdout, sys.stderr
        sys.stdout = sys.stderr = open(os.devnull, "w")
        try:
            algo.learn(env, pol, total, key=k2, callback=[LoggingCallback(rec, name="verif", alpha=alpha), HistObserver(cap, sink)])
            jax.effects_barrier()
        finally:
            sys.stdout, sys.stderr = out, err
        recs = [(st, sc["episode/return"], sc["episode/length"]) for st, sc in rec.rows]
        hist = []
        if sink:
            r, d, p = sink[-1]
            r, d, p = np.atleast_2d(r), np.atleast_2d(d), np.atleast_1d(p)
            hist = [[(float(r[e][t]), bool(d[e][t])) for t in range(min(int(p[e]), cap))] for e in range(r.shape[0])]
        lit = (f"CLearnHist {ql(alpha)} {N}%nat {T}%nat {L}%nat {iters}%nat "
               f"{listl(listl('(' + ql(a) + ', ' + bl(b) + ')' for a, b in h) for h in hist)} "
               f"{listl('(' + zl(a) + ', ' + ql(b) + ', ' + ql(c) + ')' for a, b, c in recs)}")
        n_done = sum(b for h in hist for _, b in h)
        j = {"api": f"{kind}.learn + [LoggingCallback(recording backend), user step observer]", "spec": spec, "stack": stack, "num_envs": N, "num_steps": T,
             "learning_starts": L, "total_timesteps": total, "expected_iterations": iters, "alpha": alpha, "seed": seed,
             "observer_history_per_env[(reward, done)]": hist, "impl_records[step,episode/return,episode/length]": recs}
        cases.append(lit); cj.append(j)
        ck.case_seen(("learn-hist", kind, i, N, T, L, iters) if (n_done >= 1 and (L > 0 or kind in ("PPO", "A2C"))) else None, sample=None)
        ck.count("learn_hist_runs:" + kind); ck.count("log_records", len(recs)); ck.count("warmup_steps", L * N)
        jax.clear_caches()
    ck.current_case = None
    return cases, cj


def body(ck):
    ck.rule = ("(a) next(): histories of 1..29 (reward, done) steps, dyadic alpha; (b) step-callback reward/done from real collect_rollout on finite MDPs (C04 generator); "
               "(c) PPO.learn with LoggingCallback + recording backend on finite MDPs, N 1..3, T 2..5, 1..3 iterations; (d) rollout_scan / rollout_while / average_reward "
               "on finite MDPs with time limits; non-trivial = at least two episode ends (a), a done inside the rollout (b), >= 2 iterations (c)")
    ck.assumptions = ["stub draws tabulated per key path; float64 exact on dyadic data",
                      "PPO.train changes only float tables of the stub policy (values/log-probs), never its integer action tables, so behaviour during learn() is the model's"]
    ck.build_coq(); ck.compile_props()
    ck.kernel_link()   # LoggingCallbackStepState.next regenerated from the source = Logging.l_next (coq/link/C19_link.v)
    quick = ck.tier == "quick"
    rng = ck.rng
    pre = "From Lerax Require Import Env Tab OnPolicy Logging.\nImport C19Check."
    c1, j1 = next_cases(ck, rng, 120 if quick else 1000)
    c2, j2 = eval_cases(ck, rng, 24 if quick else 200)
    c3, j3 = learn_cases(ck, rng, 6 if quick else 40)
    ck.log(f"{len(c1)} next / {len(c2)} eval / {len(c3)} learn cases")
    res = ck.run_coq_cases("C19Check", c1, shard=60, preamble=pre)
    ck.classify(res, j1, sig_of=lambda i: "C19/next", relation="Logging.l_next (callback.py:138-176) vs LoggingCallbackStepState.next",
                what="episode statistics are not blended with exactly the totals since the previous episode end")
    res = ck.run_coq_cases("C19Check", c2, shard=6, preamble=pre)
    ck.classify(res, j2, sig_of=lambda i: "C19/eval/" + j2[i]["api"], relation="Logging.rollout_scan/rollout_while/average_reward (benchmark/__init__.py) vs lerax.benchmark",
                what="evaluation helper does not return the mean undiscounted return up to the first done / step cap")
    res = ck.run_coq_cases("C19Check", c3, shard=3, preamble=pre)
    ck.classify(res, j3, sig_of=lambda i: "C19/learn-records", relation="C19Check.learn_records vs scalars received by the backend",
                what="log records are not in iteration order with the cumulative number of environment steps / the per-environment EMA means")
    c4, j4 = learn_hist_cases(ck, rng, 10 if quick else 60)
    res = ck.run_coq_cases("C19Check", c4, shard=5, preamble=pre)
    ck.classify(res, j4, sig_of=lambda i: "C19/learn-records/" + j4[i]["api"].split(".")[0], relation="C19Check.hist_records vs scalars received by the backend",
                what="log records are not the per-environment statistics of the steps that happened (warm-up included) with the cumulative number of environment steps")
    # (b) the reward handed to step callbacks is the environment's reward
    cases, cj = [], []
    for i in range(20 if quick else 150):
        lit, j, meta = gen_rollout_case(ck, rng, 500_000 + i)
        cases.append(lit); cj.append(j)
        release_jit(i, 25)
    ck.current_case = None
    res = ck.run_coq_cases("C04Check", cases, funcs=("agree_cb", "holds_cb"), shard=10, preamble=PREAMBLE)
    if res is not None:
        ck.classify({"agree": res["agree_cb"], "holds": res["holds_cb"]}, cj, sig_of=lambda i: "C19/callback-reward",
                    relation="r_env_rew/r_done of OnPolicy.op_step vs StepContext.reward/done", what="step callbacks are not handed the environment's own reward / done flag")


if __name__ == "__main__":
    run_main("C19", body)
