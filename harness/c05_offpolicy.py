"""C05 — off-policy collection stores exactly the transitions that happened.
Tie: replay buffers held by a real DQN learner after reset() (warm-up) and after each
collection performed the way iteration() performs it (collect_rollout, vmapped over
environments with jr.split(rollout_key, N)), on finite MDPs with tabular behaviour
policies, vs Lerax.OffPolicy, compared in Coq."""
from __future__ import annotations

import numpy as np

from harness.common import bl, listl, ql, release_jit, run_main, setup_jax, zl

jax = setup_jax(x64=True)
import equinox as eqx  # noqa: E402
import jax.numpy as jnp  # noqa: E402
import jax.random as jr  # noqa: E402

from lerax.algorithm import DQN  # noqa: E402
from lerax.callback import CallbackList  # noqa: E402

from harness.c06_replay import row_lit  # noqa: E402
from harness.rollout_cases import _ALLOW, est_lit  # noqa: E402
from harness.stubs import (KeyTree, TabEnv, TabPolicy, build_stack, canon_state, chain_tab, path_lit, ptab_lit, random_ptab, random_stack,  # noqa: E402
                           random_tab, rawtbl_lit, subtree, tab_lit, wd_lit)


def snap(step_state, i, N, C):
    ss = step_state if N == 1 else jax.tree.map(lambda x: x[i], step_state)
    cnt, s = canon_state(ss.env_state)
    h = int(ss.policy_state.h)
    b = ss.buffer
    pos = int(b.position)
    rows = []
    for k in range(min(pos, C)):
        rows.append({"obs": [float(x) for x in np.asarray(b.observations[k]).reshape(-1)], "next": [float(x) for x in np.asarray(b.next_observations[k]).reshape(-1)],
                     "act": float(np.asarray(b.actions[k]).reshape(())), "rew": float(b.rewards[k]), "done": bool(b.dones[k]), "timeout": bool(b.timeouts[k]),
                     "ps": int(b.states.h[k]), "nps": int(b.next_states.h[k])})
    return {"state": [cnt, s, h], "pos": pos, "rows": rows}


def snap_lit(s):
    return f"(Build_snap {est_lit(*s['state'])} {zl(s['pos'])} {listl(row_lit(r) for r in s['rows'])})"


def body(ck):
    ck.rule = ("finite MDPs (discrete observations; discrete or bounded-Box actions with out-of-bounds proposals; inner truncation) under TimeLimit/reward/action wrapper stacks "
               "x tabular stateful behaviour policies x (buffer_size, learning_starts, num_envs 1..3, num_steps 1..5) x 1..3 collections; 40% key-free cases; "
               "non-trivial = an episode end was stored and the ring wrapped or N>1; distinct by case parameters")
    ck.assumptions = ["the collection part of iteration() is exercised by calling collect_rollout exactly as iteration() does (train() needs a Q-network and does not touch the buffer)",
                      "stub draws tabulated per key path; float64 exact on dyadic tables"]
    ck.build_coq(); ck.compile_props()
    ck.kernel_link()   # the off-policy step regenerated from the source = OffPolicy.off_step (coq/link/C05_link.v)
    quick = ck.tier == "quick"
    rng = ck.rng
    n_cases = 45 if quick else 400
    cases, cj = [], []
    cb = CallbackList(callbacks=[])
    for idx in range(n_cases):
        det = bool(rng.random() < 0.4)
        chain = det and rng.random() < 0.6
        if chain:
            # key-free chain MDP under a TimeLimit hitting the terminal step: pure truncation / coincidence / pure termination
            K = int(rng.integers(2, 5))
            spec = chain_tab(rng, K, box_action=bool(rng.random() < 0.3))
            stack, asp, osp = [["TimeLimit", int(K + rng.integers(-1, 2))]], list(spec["asp"]), list(spec["osp"])
        else:
            spec = random_tab(rng, box_obs=False, noise=not det, trunc_rate=0.08, term_rate=0.15)
            if det:
                spec["I"] = spec["I"][:1]; spec["P"] = [[[x[0]] for x in row] for row in spec["P"]]
            stack, asp, osp = random_stack(rng, spec, depth=int(rng.integers(0, 3)), allow=_ALLOW)
        pspec = random_ptab(rng, spec, asp, int(spec["osp"][1]), det=det)
        env = build_stack(TabEnv(spec), stack)
        policy = TabPolicy(pspec, env.action_space, env.observation_space)
        N = int(rng.integers(1, 4)); T = int(rng.integers(1, 6)); L = int(rng.integers(0, 7)); K = int(rng.integers(1, 4))
        C_env = int(rng.integers(2, 9)); buffer_size = C_env * N + (int(rng.integers(0, N)) if N > 1 else 0)
        algo = DQN(buffer_size=buffer_size, learning_starts=L, num_envs=N, num_steps=T, batch_size=1)
        seed = int(70_000 * (ck.seed + 1) + idx)
        roots = [jr.key(seed + 7 * t) for t in range(K + 1)]
        tree = KeyTree(roots)
        ck.current_case = {"spec": spec, "stack": stack, "pspec": pspec, "N": N, "T": T, "L": L, "K": K, "buffer_size": buffer_size, "seed": seed}
        # --- real reset (warm-up inside)
        state = eqx.filter_jit(lambda k: algo.reset(env, policy, key=k, callback=cb))(roots[0])
        paths = []
        r0 = ((0, 0),)
        for i in range(N):
            ik = r0 + ((3, 0),) + (((N, i),) if N > 1 else ())
            sk = r0 + ((3, 1),) + (((N, i),) if N > 1 else ())
            paths += subtree(ik, [2])
            for t in range(L):
                paths += subtree(sk + ((L, t),), [9])
        after_reset = [snap(state.step_state, i, N, buffer_size // N if N > 1 else buffer_size) for i in range(N)]
        # --- collections as iteration() performs them
        after_iter = []
        ss = state.step_state
        for it in range(1, K + 1):
            rk = jr.split(roots[it], 3)[0]
            if N == 1:
                ss = eqx.filter_jit(lambda s, k: algo.collect_rollout(env, policy, s, cb, k))(ss, rk)
            else:
                ss = eqx.filter_jit(lambda s, k: eqx.filter_vmap(algo.collect_rollout, in_axes=(None, None, eqx.if_array(0), None, 0))(env, policy, s, cb, jr.split(k, N)))(ss, rk)
            for i in range(N):
                base = ((0, it), (3, 0)) + (((N, i),) if N > 1 else ())
                for t in range(T):
                    paths += subtree(base + ((T, t),), [9])
            after_iter.append([snap(ss, i, N, buffer_size // N if N > 1 else buffer_size) for i in range(N)])
        raw_lit, raw_json = rawtbl_lit(tree, paths)
        canon_a = 0.0 if asp[0] == "disc" else (0.0 if asp[2] is None else (asp[2] + asp[3]) / 2)
        lit = (f"Build_case {tab_lit(spec)} {raw_lit} {listl(wd_lit(d) for d in stack)} {ptab_lit(pspec)} {N}%nat {buffer_size}%nat {L}%nat {T}%nat "
               f"{ql(canon_a)} {path_lit(r0)} {listl(path_lit(((0, it),)) for it in range(1, K + 1))} {bl(det)} "
               f"{listl(snap_lit(s) for s in after_reset)} {listl(listl(snap_lit(s) for s in ss_) for ss_ in after_iter)}")
        j = {"spec": spec, "stack(outermost first)": stack, "policy": pspec, "num_envs": N, "num_steps": T, "learning_starts": L, "buffer_size": buffer_size,
             "iterations": K, "key_free": det, "root_seeds": [seed + 7 * t for t in range(K + 1)], "raw_draws": raw_json,
             "impl_after_reset": after_reset, "impl_after_each_collection": after_iter}
        cases.append(lit); cj.append(j)
        n_done = sum(r["done"] for s in after_iter[-1] for r in s["rows"])
        wrapped = any(s["pos"] > (buffer_size // N if N > 1 else buffer_size) for s in after_iter[-1])
        ck.case_seen((idx, N, T, L, K) if (n_done >= 1 and (wrapped or N > 1)) else None, sample=j)
        ck.count(f"N={N}"); ck.count("key_free" if det else "stochastic"); ck.count("stored_dones", n_done); ck.count("wrapped" if wrapped else "not_wrapped")
        ck.count("box_actions" if asp[0] == "box" else "discrete_actions")
        release_jit(idx, 20)
    ck.current_case = None
    ck.log(f"{len(cases)} cases")
    res = ck.run_coq_cases("C05Check", cases, funcs=("agree", "holds", "positions_ok"), shard=10,
                           preamble="From Lerax Require Import Env Tab OnPolicy Replay OffPolicy C06Check.\nImport C05Check.")
    if res is not None:
        ck.classify({"agree": res["agree"], "holds": sorted(set(res["holds"]) | set(res["positions_ok"]))}, cj, sig_of=lambda i: "C05/collection",
                    relation="OffPolicy.off_reset/off_collect (off_policy.py:143-350) vs reset()/collect_rollout",
                    what="stored transitions differ from what happened (observation / action / reward of the executed action / pre-reset successor observation / done / timeout / restart / warm-up or per-iteration counts)")


if __name__ == "__main__":
    run_main("C05", body)
