#!/bin/bash
# Build the framework offline from files on disk: full .vo build of the Coq development,
# refuse forbidden vernacular, smoke-test the toolchain the checks rely on.
set -e
cd "$(dirname "$0")"
if grep -rnE '\b(Admitted|admit|Axiom|Parameter|Conjecture)\b|Unset Guard|bypass_check|Admit Obligations' coq/theories coq/props --include='*.v' | grep -v '^\S*:[0-9]*:\s*(\*' ; then
  echo "forbidden vernacular found"; exit 1
fi
bash coq/build.sh
PYTHONPATH=/repo/src:/verif JAX_PLATFORMS=cpu /venv/bin/python -c "import lerax, jax, equinox; print('lerax importable from', lerax.__path__)"
# every kernel translates from the source as it stands and every link theorem checks against the regenerated definitions
tools/check_links.sh
echo "setup ok"
