#!/bin/bash
# Build the framework offline from files on disk: full .vo build of the Coq development,
# refuse forbidden vernacular, smoke-test the toolchain the checks rely on.
set -e
cd "$(dirname "$0")"
if grep -rnE '\b(Admitted|admit|Axiom|Parameter|Conjecture)\b|Unset Guard|bypass_check|Admit Obligations' coq/theories coq/props --include='*.v' | grep -v '^\S*:[0-9]*:\s*(\*' ; then
  echo "forbidden vernacular found"; exit 1
fi
bash coq/build.sh
PYTHONPATH=/repo/src:/verif JAX_PLATFORMS=cpu /venv/bin/python -c "import lerax, jax, equinox; print('lerax importable from', lerax.__path__)"
# every kernel translates from the source as it stands and every link theorem checks against the regenerated definitions
# (informative here: the checks themselves re-check their link and report a broken one as a violation of their property)
tools/check_links.sh || echo "NOTE: a kernel link does not check against the lerax source as it stands; the property's own check will report it"
echo "setup ok"
